(* Model of sylvia-derive/src/contract/communication/reply.rs (feature `replies`): the reply table
   built by `as_reply_data` (accumulating fold with `excludes` / `merge`), reply ids, the generated
   `dispatch_reply`, data extraction per `#[sv::data(..)]` mode, payload (de)serialisation and the
   `SubMsgMethods` builders. Definitions only. *)
From Coq Require Import String List Bool NArith ZArith.
Require Import SV.Base.Json SV.Model.Kinds SV.Model.GenTables SV.Model.Casing SV.Model.Syntax SV.Model.Expand.
Import ListNotations.
Open Scope string_scope.
Open Scope list_scope.

(* ------------------------------------------------------------------------------------------ *)
(* Reply methods as the macro sees them. *)
(* rf_bad: an attribute on the parameter is itself rejected (unknown argument of `sv::data` / `sv::payload`, ...) *)
Record rfield := { rf_name : string; rf_ty : string; rf_data : option data_params; rf_payload : bool; rf_bad : bool }.

Definition mk_rfield (a : arg) : rfield :=
  let p := parse_attrs (a_attrs a) in
  {| rf_name := a_name a; rf_ty := show_ty (a_ty a); rf_data := p_data p; rf_payload := p_payload p;
     rf_bad := match p_diags p with [] => false | _ => true end |}.

Record rmethod := { rm_name : string; rm_on : reply_on; rm_handlers : list string; rm_fields : list rfield }.

Definition rmethod_of (m : method) : option rmethod :=
  match p_msg (parse_attrs (m_attrs m)) with
  | Some ma =>
      if kind_eqb (ma_kind ma) KReply then
        Some {| rm_name := m_name m; rm_on := ma_reply_on ma; rm_handlers := ma_handlers ma;
                rm_fields := map mk_rfield (m_args m) |}
      else None
  | None => None
  end.

Definition reply_methods (ms : list method) : list rmethod :=
  flat_map (fun m => match rmethod_of m with Some r => [r] | None => [] end) ms.

(* ReplyVariant::as_variant_handlers_pair *)
Definition pairs_of (m : rmethod) : list (rmethod * string) :=
  match rm_handlers m with
  | [] => [(m, rm_name m)]
  | hs => map (fun h => (m, h)) hs
  end.

Definition reply_id_of (handler : string) : string := upper_snake handler ++ "_REPLY_ID".

Inductive rdiag := RDataNotFirst | RDataNotSuccess | RMissingPayload | RRedundantPayload | RDuplicated
                 | RMismatchedQuantity | RMismatchedParam | RDataInstantiateRaw | RMismatchedPayloadMarker | RHandlerClash
                 | RBadFieldAttr.

(* ReplyOn::excludes *)
Definition excludes (a b : reply_on) : bool :=
  reply_on_eqb a b || reply_on_eqb a ROAlways || reply_on_eqb b ROAlways.

Record reply_data := {
  rd_reply_id : string;
  rd_handler_id : string;
  rd_handlers : list (string * reply_on);
  rd_data : option rfield;
  rd_payload : list rfield
}.

Fixpoint find_index {A} (f : A -> bool) (l : list A) (i : nat) : option (nat * A) :=
  match l with
  | [] => None
  | x :: r => if f x then Some (i, x) else find_index f r (S i)
  end.

Definition has_data (f : rfield) : bool := match rf_data f with Some _ => true | None => false end.

(* ReplyVariant::as_data_field *)
Definition as_data_field (m : rmethod) : option rfield * list rdiag :=
  match find_index has_data (rm_fields m) 0 with
  | None => (None, [])
  | Some (i, f) =>
      if reply_on_eqb (rm_on m) ROSuccess then
        match i with O => (Some f, []) | S _ => (None, [RDataNotFirst]) end
      else (None, [RDataNotSuccess])
  end.

(* assert_no_redundant_params *)
Definition redundant_diags (payload : list rfield) : list rdiag :=
  match payload with
  | [_] => []
  | _ => match find_index rf_payload payload 0 with None => [] | Some _ => [RRedundantPayload] end
  end.

Definition is_some {A} (o : option A) : bool := match o with Some _ => true | None => false end.

(* diagnostics of the attributes on the fields themselves (DataFieldParams::new) *)
Definition field_attr_diags (m : rmethod) : list rdiag :=
  flat_map (fun f => (match rf_data f with
                      | Some d => if dp_inst d && dp_raw d then [RDataInstantiateRaw] else []
                      | None => [] end) ++ (if rf_bad f then [RBadFieldAttr] else [])) (rm_fields m).

(* ReplyData::new *)
Definition rd_new (m : rmethod) (hid : string) : reply_data * list rdiag :=
  let '(data, d1) := as_data_field m in
  let payload := if is_some data || negb (reply_on_eqb (rm_on m) ROSuccess) then skipn 1 (rm_fields m) else rm_fields m in
  let d2 := match payload with [] => [RMissingPayload] | _ => [] end in
  ({| rd_reply_id := reply_id_of hid; rd_handler_id := hid; rd_handlers := [(rm_name m, rm_on m)];
      rd_data := data; rd_payload := payload |}, d1 ++ d2 ++ redundant_diags payload).

Definition is_payload_marked (payload : list rfield) : bool := existsb rf_payload payload.

Fixpoint zip_mismatch (a b : list rfield) : list rdiag :=
  match a, b with
  | x :: r, y :: s => (if rf_ty x =? rf_ty y then [] else [RMismatchedParam]) ++ zip_mismatch r s
  | _, _ => []
  end.

(* ReplyData::merge: the data field of an entry is the one of whichever merged method declares one
   (only a success method can) *)
Definition rd_merge (rd : reply_data) (m : rmethod) : reply_data * list rdiag :=
  let '(n, dn) := rd_new m (rd_handler_id rd) in
  ({| rd_reply_id := rd_reply_id rd; rd_handler_id := rd_handler_id rd;
      rd_handlers := rd_handlers rd ++ [(rm_name m, rm_on m)];
      rd_data := match rd_data rd with Some d => Some d | None => rd_data n end;
      rd_payload := rd_payload rd |},
   dn ++ (if Nat.eqb (length (rd_payload rd)) (length (rd_payload n)) then [] else [RMismatchedQuantity])
      ++ zip_mismatch (rd_payload rd) (rd_payload n)
      ++ (if Bool.eqb (is_payload_marked (rd_payload rd)) (is_payload_marked (rd_payload n)) then [] else [RMismatchedPayloadMarker])).

Fixpoint replace_rd (t : list reply_data) (rid : string) (f : reply_data -> reply_data) : list reply_data :=
  match t with
  | [] => []
  | x :: r => if rd_reply_id x =? rid then f x :: r else x :: replace_rd r rid f
  end.

Definition find_rd (t : list reply_data) (rid : string) : option reply_data :=
  find (fun x => rd_reply_id x =? rid) t.

(* one step of the fold in `as_reply_data` *)
Definition table_step (st : list reply_data * list rdiag) (p : rmethod * string) : list reply_data * list rdiag :=
  let '(t, ds) := st in
  let '(m, hid) := p in
  let rid := reply_id_of hid in
  match find_rd t rid with
  | Some ex =>
      (* two different handler names with one reply id constant (`handler1` / `handler_1`) *)
      if negb (rd_handler_id ex =? hid) then (t, ds ++ [RHandlerClash])
      else if existsb (fun h : string * reply_on => excludes (snd h) (rm_on m)) (rd_handlers ex)
      then (t, ds ++ map (fun _ => RDuplicated) (rd_handlers ex))
      else let '(_, dm) := rd_merge ex m in (replace_rd t rid (fun x => fst (rd_merge x m)), ds ++ dm)
  | None => let '(n, dn) := rd_new m hid in (t ++ [n], ds ++ dn)
  end.

Definition all_pairs (ms : list rmethod) : list (rmethod * string) := flat_map pairs_of ms.

Definition build_table (ms : list rmethod) : list reply_data * list rdiag :=
  fold_left table_step (all_pairs ms) ([], flat_map field_attr_diags ms).

(* ------------------------------------------------------------------------------------------ *)
(* What the generated code does with a table. *)

(* ReplyData::emit_cw_reply_on *)
Definition cw_reply_on (rd : reply_data) : reply_on :=
  let has r := existsb (fun h : string * reply_on => reply_on_eqb (snd h) r) (rd_handlers rd) in
  if has ROAlways || (has ROSuccess && has ROError) then ROAlways
  else if has ROSuccess then ROSuccess else ROError.


Definition success_handler (rd : reply_data) : option (string * reply_on) :=
  find (fun h : string * reply_on => reply_on_eqb (snd h) ROSuccess || reply_on_eqb (snd h) ROAlways) (rd_handlers rd).
Definition error_handler (rd : reply_data) : option (string * reply_on) :=
  find (fun h : string * reply_on => reply_on_eqb (snd h) ROError || reply_on_eqb (snd h) ROAlways) (rd_handlers rd).

(* replies *)
Record sub_ok := { so_events : list json; so_data : option string; so_msg_responses : list json }.
Inductive sub_result := SubOk (r : sub_ok) | SubErr (e : string).
Record reply := { rp_id : N; rp_payload : string; rp_gas : N; rp_result : sub_result }.

Inductive data_val :=
| DRaw (b : string) | DRawOpt (b : option string) | DTyped (v : json) | DOpt (v : option json)
| DInst (v : json) | DInstOpt (v : option json).

Inductive rerr := EUnknownId (id : N) | EPayload | EDataMissing | EDataProtobuf | EDataJson | ESubError (e : string).

Inductive rarg := AData (d : data_val) | AError (e : string) | AResult (r : sub_result)
                | APayloadRaw (b : string) | APayloadVal (v : json).

Record rctx := { rc_gas : N; rc_events : list json; rc_msg_responses : list json }.

Section ReplySem.
(* dependencies: cw_utils' envelope parsers and the JSON decoder, as arbitrary functions *)
Variable parse_exec : string -> option (option string).     (* None = protobuf error; Some inner data *)
Variable parse_inst : string -> option json.
Variable dec_json : string -> string -> option json.          (* type, bytes *)
Variable outcome : Type.
Variable handler : string -> rctx -> list rarg -> outcome.

(* DataField::emit_data_deserialization *)
Definition extract_data (dp : data_params) (ty : string) (data : option string) : rerr + data_val :=
  if dp_raw dp && dp_opt dp then inr (DRawOpt data)
  else if dp_raw dp then match data with Some d => inr (DRaw d) | None => inl EDataMissing end
  else if dp_inst dp && dp_opt dp then
    match data with
    | Some d => match parse_inst d with Some x => inr (DInstOpt (Some x)) | None => inl EDataProtobuf end
    | None => inr (DInstOpt None)
    end
  else if dp_inst dp then
    match data with
    | Some d => match parse_inst d with Some x => inr (DInst x) | None => inl EDataProtobuf end
    | None => inl EDataMissing
    end
  else
    match data with
    | Some d =>
        match parse_exec d with
        | None => inl EDataProtobuf
        | Some None => inl EDataMissing
        | Some (Some inner) =>
            match dec_json ty inner with
            | Some v => inr (if dp_opt dp then DOpt (Some v) else DTyped v)
            | None => inl EDataJson
            end
        end
    | None => if dp_opt dp then inr (DOpt None) else inl EDataMissing
    end.

(* payload: `let (a, b, ..) = from_json(&payload)?` or, when marked raw, the bytes themselves *)
Variable parse_json : string -> option json.

Definition dec_payload (payload : list rfield) (bytes : string) : option (list rarg) :=
  if is_payload_marked payload then Some [APayloadRaw bytes]
  else
    match parse_json bytes with
    | None => None
    | Some j =>
        match payload with
        | [f] => Some [APayloadVal j]
        | fs =>
            match j with
            | JArr items =>
                if Nat.eqb (length items) (length fs) then Some (map APayloadVal items) else None
            | _ => None
            end
        end
    end.

Inductive rres :=
| RCalled (fn : string) (c : rctx) (args : list rarg) (o : outcome)
| RPass (events : list json) (data : option string)
| RErr (e : rerr).

Definition dispatch_rd (rd : reply_data) (r : reply) : rres :=
  match rp_result r with
  | SubOk ok =>
      match success_handler rd with
      | Some (fn, ROSuccess) =>
          match dec_payload (rd_payload rd) (rp_payload r) with
          | None => RErr EPayload
          | Some pargs =>
              match rd_data rd with
              | Some f =>
                  match extract_data (match rf_data f with Some d => d | None => {| dp_raw := false; dp_opt := false; dp_inst := false |} end)
                                     (rf_ty f) (so_data ok) with
                  | inl e => RErr e
                  | inr d =>
                      let c := {| rc_gas := rp_gas r; rc_events := so_events ok; rc_msg_responses := so_msg_responses ok |} in
                      RCalled fn c (AData d :: pargs) (handler fn c (AData d :: pargs))
                  end
              | None =>
                  let c := {| rc_gas := rp_gas r; rc_events := so_events ok; rc_msg_responses := so_msg_responses ok |} in
                  RCalled fn c pargs (handler fn c pargs)
              end
          end
      | Some (fn, _) =>
          match dec_payload (rd_payload rd) (rp_payload r) with
          | None => RErr EPayload
          | Some pargs =>
              let c := {| rc_gas := rp_gas r; rc_events := []; rc_msg_responses := [] |} in
              RCalled fn c (AResult (rp_result r) :: pargs) (handler fn c (AResult (rp_result r) :: pargs))
          end
      | None => RPass (so_events ok) (so_data ok)
      end
  | SubErr e =>
      match error_handler rd with
      | Some (fn, ROError) =>
          match dec_payload (rd_payload rd) (rp_payload r) with
          | None => RErr EPayload
          | Some pargs =>
              let c := {| rc_gas := rp_gas r; rc_events := []; rc_msg_responses := [] |} in
              RCalled fn c (AError e :: pargs) (handler fn c (AError e :: pargs))
          end
      | Some (fn, _) =>
          match dec_payload (rd_payload rd) (rp_payload r) with
          | None => RErr EPayload
          | Some pargs =>
              let c := {| rc_gas := rp_gas r; rc_events := []; rc_msg_responses := [] |} in
              RCalled fn c (AResult (rp_result r) :: pargs) (handler fn c (AResult (rp_result r) :: pargs))
          end
      | None => RErr (ESubError e)
      end
  end.

(* `match id { X_REPLY_ID => .., _ => unknown }`: ids are the positions in the table *)
Fixpoint lookup_id (t : list reply_data) (id : N) : option reply_data :=
  match t with
  | [] => None
  | x :: r => if N.eqb id 0 then Some x else lookup_id r (N.pred id)
  end.

Definition dispatch_reply (t : list reply_data) (r : reply) : rres :=
  match lookup_id t (rp_id r) with
  | Some rd => dispatch_rd rd r
  | None => RErr (EUnknownId (rp_id r))
  end.

End ReplySem.

Arguments RCalled {outcome}.
Arguments RPass {outcome}.
Arguments RErr {outcome}.

(* ids *)
Fixpoint id_of_aux (t : list reply_data) (hid : string) (i : N) : option N :=
  match t with
  | [] => None
  | x :: r => if rd_reply_id x =? reply_id_of hid then Some i else id_of_aux r hid (N.succ i)
  end.
Definition id_of (t : list reply_data) (hid : string) : option N := id_of_aux t hid 0.

(* ------------------------------------------------------------------------------------------ *)
(* SubMsgMethods builders. A sub-message is its `msg` and the assoc list of its other fields. *)
Inductive receiver := RSubMsg (msg : json) (fields : list (string * json)) | RWasmMsg (msg : json) | RCosmosMsg (msg : json).

Definition show_reply_on (r : reply_on) : string := match r with ROSuccess => "success" | ROError => "error" | ROAlways => "always" end.

(* payload serialisation: raw = the argument itself; typed = to_json_binary(&(a, b, ..)) *)
Inductive payload_arg := PRawBytes (b : string) | PVals (vs : list json).

Definition ser_payload (to_text : json -> string) (a : payload_arg) : string :=
  match a with
  | PRawBytes b => b
  | PVals [v] => to_text v
  | PVals vs => to_text (JArr vs)
  end.

Definition set_field (k : string) (v : json) (l : list (string * json)) : list (string * json) :=
  map (fun p : string * json => if fst p =? k then (k, v) else p) l.

Definition build_submsg (to_text : json -> string) (id : N) (rd : reply_data) (recv : receiver) (a : payload_arg)
  : json * list (string * json) :=
  let ro := JStr (show_reply_on (cw_reply_on rd)) in
  let pl := JStr (ser_payload to_text a) in
  match recv with
  | RSubMsg msg fields =>
      (* `SubMsg { reply_on, id, payload, ..self }` *)
      (msg, set_field "reply_on" ro (set_field "id" (JNum (Z.of_N id)) (set_field "payload" pl fields)))
  | RWasmMsg msg | RCosmosMsg msg =>
      (msg, [("id", JNum (Z.of_N id)); ("gas_limit", JNull); ("reply_on", ro); ("payload", pl)])
  end.
