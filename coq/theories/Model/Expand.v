(* Model of the expansion decisions of `#[contract]` / `#[interface]`: attribute parsing
   (parser/attributes/mod.rs), variant collection and generic-usage analysis
   (types/msg_variant.rs, parser/check_generics.rs, utils.rs::filter_wheres), message enums and
   structs (contract|interface/communication/enum_msg.rs, struct_msg.rs), the contract-level
   wrapper (wrapper_msg.rs, types/interfaces.rs). Definitions only. *)
From Coq Require Import String List Bool Arith.
Require Import SV.Base.StrOrder SV.Model.Kinds SV.Model.GenTables SV.Model.Casing SV.Model.Syntax.
Import ListNotations.
Open Scope string_scope.
Open Scope list_scope.

(* ------------------------------------------------------------------------------------------ *)
(* Diagnostics (the emit_error!/syn::Error sites), by kind. *)
Inductive diag :=
| DRedefined (what : string)
| DBadMsgKind | DBadReplyOn | DBadMsgAttrKind | DBadOverrideKind | DBadDataFlag | DDataInstantiateRaw
| DBadPayload | DBadFeature | DAttrOnStructMsg | DMalformed (what : string)
| DNoNew | DNewHasParams | DNoInstantiate | DManyStructMsgs | DSvAttrOnSelfOrCtx | DBadReturnType
| DIfaceGenerics | DIfaceNoError | DIfaceInstantiate | DIfaceMigrate | DIfaceAssocUnbounded.

Record msg_attr := { ma_kind : kind; ma_resp : option string; ma_handlers : list string; ma_reply_on : reply_on }.
Record messages_attr := { ms_module : list string; ms_variant : string; ms_custom_msg : bool; ms_custom_query : bool }.
Record data_params := { dp_raw : bool; dp_opt : bool; dp_inst : bool }.
Record override_attr := { ov_kind : kind; ov_entry_point : string; ov_msg : string }.

Record parsed := {
  p_msg : option msg_attr;
  p_variant_attrs : list string;
  p_msg_attrs : list (kind * string);
  p_messages : list messages_attr;
  p_overrides : list override_attr;
  p_custom : option (option string * option string);
  p_error : option string;
  p_replies : bool;
  p_data : option data_params;
  p_payload : bool;
  p_diags : list diag
}.

Definition empty_parsed : parsed :=
  {| p_msg := None; p_variant_attrs := []; p_msg_attrs := []; p_messages := []; p_overrides := [];
     p_custom := None; p_error := None; p_replies := false; p_data := None; p_payload := false; p_diags := [] |}.

Definition add_diag (p : parsed) (d : diag) : parsed :=
  {| p_msg := p_msg p; p_variant_attrs := p_variant_attrs p; p_msg_attrs := p_msg_attrs p;
     p_messages := p_messages p; p_overrides := p_overrides p; p_custom := p_custom p; p_error := p_error p;
     p_replies := p_replies p; p_data := p_data p; p_payload := p_payload p; p_diags := p_diags p ++ [d] |}.

Definition reply_on_of_string (s : string) : option reply_on :=
  match reply_on_tag_of_string s with Some t => reply_on_of_tag t | None => None end.

Definition last_seg (m : list string) : string := last m "".

Fixpoint parse_data_flags (fs : list string) (d : data_params) : option data_params :=
  match fs with
  | [] => Some d
  | f :: r =>
      match data_flag_of_string f with
      | Some t =>
          parse_data_flags r
            {| dp_raw := dp_raw d || String.eqb t "raw"; dp_opt := dp_opt d || String.eqb t "opt";
               dp_inst := dp_inst d || String.eqb t "instantiate" |}
      | None => None
      end
  end.

(* ParsedSylviaAttributes::match_attribute for one recognised attribute *)
Definition apply_sv (tag : string) (b : sv_body) (p : parsed) : parsed :=
  if tag =? "Msg" then
    match b with
    | SvMsg kn resp hs ro =>
        match p_msg p with
        | Some _ => add_diag p (DRedefined "msg")
        | None =>
            match msg_kind_of_string kn with
            | None => add_diag p DBadMsgKind
            | Some k =>
                match (match ro with None => Some ROAlways | Some r => reply_on_of_string r end) with
                | None => add_diag p DBadReplyOn
                | Some r =>
                    {| p_msg := Some {| ma_kind := k; ma_resp := resp; ma_handlers := hs; ma_reply_on := r |};
                       p_variant_attrs := p_variant_attrs p; p_msg_attrs := p_msg_attrs p; p_messages := p_messages p;
                       p_overrides := p_overrides p; p_custom := p_custom p; p_error := p_error p; p_replies := p_replies p;
                       p_data := p_data p; p_payload := p_payload p; p_diags := p_diags p |}
                end
            end
        end
    | _ => add_diag p (DMalformed "msg")
    end
  else if tag =? "VariantAttrs" then
    match b with
    | SvAttr t =>
        {| p_msg := p_msg p; p_variant_attrs := p_variant_attrs p ++ [t]; p_msg_attrs := p_msg_attrs p;
           p_messages := p_messages p; p_overrides := p_overrides p; p_custom := p_custom p; p_error := p_error p;
           p_replies := p_replies p; p_data := p_data p; p_payload := p_payload p; p_diags := p_diags p |}
    | _ => add_diag p (DMalformed "attr")
    end
  else if tag =? "MsgAttrs" then
    match b with
    | SvMsgAttr kn t =>
        match msg_attr_kind_of_string kn with
        | None => add_diag p DBadMsgAttrKind
        | Some k =>
            {| p_msg := p_msg p; p_variant_attrs := p_variant_attrs p; p_msg_attrs := p_msg_attrs p ++ [(k, t)];
               p_messages := p_messages p; p_overrides := p_overrides p; p_custom := p_custom p; p_error := p_error p;
               p_replies := p_replies p; p_data := p_data p; p_payload := p_payload p; p_diags := p_diags p |}
        end
    | _ => add_diag p (DMalformed "msg_attr")
    end
  else if tag =? "Messages" then
    match b with
    | SvMessages m asn cm cq =>
        let v := match asn with Some n => n | None => upper_camel (last_seg m) end in
        {| p_msg := p_msg p; p_variant_attrs := p_variant_attrs p; p_msg_attrs := p_msg_attrs p;
           p_messages := p_messages p ++ [{| ms_module := m; ms_variant := v; ms_custom_msg := cm; ms_custom_query := cq |}];
           p_overrides := p_overrides p; p_custom := p_custom p; p_error := p_error p;
           p_replies := p_replies p; p_data := p_data p; p_payload := p_payload p; p_diags := p_diags p |}
    | _ => add_diag p (DMalformed "messages")
    end
  else if tag =? "OverrideEntryPoint" then
    match b with
    | SvOverride kn ep m =>
        match override_kind_of_string kn with
        | None => add_diag p DBadOverrideKind
        | Some k =>
            {| p_msg := p_msg p; p_variant_attrs := p_variant_attrs p; p_msg_attrs := p_msg_attrs p;
               p_messages := p_messages p;
               p_overrides := p_overrides p ++ [{| ov_kind := k; ov_entry_point := ep; ov_msg := m |}];
               p_custom := p_custom p; p_error := p_error p;
               p_replies := p_replies p; p_data := p_data p; p_payload := p_payload p; p_diags := p_diags p |}
        end
    | _ => add_diag p (DMalformed "override_entry_point")
    end
  else if tag =? "Custom" then
    match b with
    | SvCustom m q =>
        match p_custom p with
        | Some _ => add_diag p (DRedefined "custom")
        | None =>
            {| p_msg := p_msg p; p_variant_attrs := p_variant_attrs p; p_msg_attrs := p_msg_attrs p;
               p_messages := p_messages p; p_overrides := p_overrides p; p_custom := Some (m, q); p_error := p_error p;
               p_replies := p_replies p; p_data := p_data p; p_payload := p_payload p; p_diags := p_diags p |}
        end
    | _ => add_diag p (DMalformed "custom")
    end
  else if tag =? "Error" then
    match b with
    | SvError t =>
        match p_error p with
        | Some _ => add_diag p (DRedefined "error")
        | None =>
            {| p_msg := p_msg p; p_variant_attrs := p_variant_attrs p; p_msg_attrs := p_msg_attrs p;
               p_messages := p_messages p; p_overrides := p_overrides p; p_custom := p_custom p; p_error := Some t;
               p_replies := p_replies p; p_data := p_data p; p_payload := p_payload p; p_diags := p_diags p |}
        end
    | _ => add_diag p (DMalformed "error")
    end
  else if tag =? "Features" then
    match b with
    | SvFeatures names =>
        if forallb (fun n => match feature_of_string n with Some _ => true | None => false end) names then
          {| p_msg := p_msg p; p_variant_attrs := p_variant_attrs p; p_msg_attrs := p_msg_attrs p;
             p_messages := p_messages p; p_overrides := p_overrides p; p_custom := p_custom p; p_error := p_error p;
             p_replies := existsb (fun n => match feature_of_string n with Some t => t =? "replies" | None => false end) names;
             p_data := p_data p; p_payload := p_payload p; p_diags := p_diags p |}
        else add_diag p DBadFeature
    | _ => add_diag p (DMalformed "features")
    end
  else if tag =? "Data" then
    match b with
    | SvData flags =>
        match parse_data_flags flags {| dp_raw := false; dp_opt := false; dp_inst := false |} with
        | None => add_diag p DBadDataFlag
        | Some d =>
            let p' :=
              {| p_msg := p_msg p; p_variant_attrs := p_variant_attrs p; p_msg_attrs := p_msg_attrs p;
                 p_messages := p_messages p; p_overrides := p_overrides p; p_custom := p_custom p; p_error := p_error p;
                 p_replies := p_replies p; p_data := Some d; p_payload := p_payload p; p_diags := p_diags p |} in
            if dp_inst d && dp_raw d then add_diag p' DDataInstantiateRaw else p'
        end
    | _ => add_diag p (DMalformed "data")
    end
  else if tag =? "Payload" then
    match b with
    | SvPayload [f] =>
        match payload_flag_of_string f with
        | Some _ =>
            {| p_msg := p_msg p; p_variant_attrs := p_variant_attrs p; p_msg_attrs := p_msg_attrs p;
               p_messages := p_messages p; p_overrides := p_overrides p; p_custom := p_custom p; p_error := p_error p;
               p_replies := p_replies p; p_data := p_data p; p_payload := true; p_diags := p_diags p |}
        | None => add_diag p DBadPayload
        end
    | _ => add_diag p DBadPayload
    end
  else p.

(* SylviaAttribute::new: two segments, first `sv`, second recognised by the regenerated table *)
Definition sv_tag (a : attr) : option string :=
  match a with
  | ASv name _ => sv_attr_of_string name
  | AForeign _ _ => None
  end.

Definition parse_one (p : parsed) (a : attr) : parsed :=
  match a with
  | ASv name b => match sv_attr_of_string name with Some tag => apply_sv tag b p | None => p end
  | AForeign _ _ => p
  end.

Definition is_struct_kind (k : kind) : bool := match k with KInst | KMigrate => true | _ => false end.

Definition parse_attrs (l : list attr) : parsed :=
  let p := fold_left parse_one l empty_parsed in
  match p_variant_attrs p, p_msg p with
  | _ :: _, Some m => if is_struct_kind (ma_kind m) then add_diag p DAttrOnStructMsg else p
  | _, _ => p
  end.

(* ------------------------------------------------------------------------------------------ *)
(* Types: Self-stripping and the generic-usage visitor. *)

Fixpoint strip_self (t : ty) : ty :=
  match t with
  | TPath segs =>
      TPath (filter (fun s : string * list ty => negb (fst s =? "Self"))
                    (map (fun s : string * list ty => let '(n, args) := s in (n, map strip_self args)) segs))
  | TTuple items => TTuple (map strip_self items)
  | TRef x => TRef (strip_self x)
  end.

(* every path occurring in a type, in the order syn's visitor reaches them (pre-order) *)
Fixpoint paths_of (t : ty) : list ty :=
  match t with
  | TPath segs =>
      t :: flat_map (fun s : string * list ty => let '(_, args) := s in flat_map paths_of args) segs
  | TTuple items => flat_map paths_of items
  | TRef x => paths_of x
  end.

Definition mem (x : string) (l : list string) : bool := existsb (String.eqb x) l.

(* the generic parameter a path *is*, if any (CheckGenerics::visit_path compares whole paths) *)
Definition generic_of_path (gens : list string) (p : ty) : option string :=
  match p with
  | TPath [(n, [])] => if mem n gens then Some n else None
  | _ => None
  end.

Definition mark_path (gens : list string) (used : list string) (p : ty) : list string :=
  match generic_of_path gens p with
  | Some g => if mem g used then used else used ++ [g]
  | None => used
  end.

Definition visit_ty (gens used : list string) (t : ty) : list string :=
  fold_left (mark_path gens) (paths_of t) used.

(* generics mentioned by a where-predicate (a fresh visitor over bounded type and bounds) *)
Definition wpred_generics (gens : list string) (w : wpred) : list string :=
  fold_left (visit_ty gens) (w_bounded w :: w_bounds w) [].

(* utils.rs::filter_wheres *)
Definition filter_wheres (wh : list wpred) (gens used : list string) : list wpred :=
  filter (fun w => forallb (fun g => mem g used) (wpred_generics gens w)) wh.

(* ------------------------------------------------------------------------------------------ *)
(* Variants. *)

Record field := { f_name : string; f_ty : ty; f_sty : ty; f_attrs : list attr }.

Record variant := {
  v_name : string;                 (* UpperCamel of the method name *)
  v_fn : string;                   (* the method it was generated from *)
  v_fields : list field;
  v_ret : option ty;               (* query return type, as written *)
  v_msg : msg_attr;
  v_fwd : list string              (* `sv::attr(..)` contents *)
}.

Definition mk_field (a : arg) : field :=
  {| f_name := a_name a; f_ty := a_ty a; f_sty := strip_self (a_ty a); f_attrs := a_attrs a |}.

(* utils.rs::extract_return_type: first generic argument of the first path segment *)
Definition extract_return (t : ty) : option ty :=
  match t with
  | TPath ((_, (TPath p) :: _) :: _) => Some (TPath p)
  | _ => None
  end.

Definition is_result_head (t : ty) : bool :=
  match t with
  | TPath ((n, _) :: _) => (n =? "Result") || (n =? "StdResult")
  | _ => false
  end.

Definition has_sv_attr (l : list attr) : bool :=
  existsb (fun a => match sv_tag a with Some _ => true | None => false end) l.

(* MsgVariant::new; returns the variant, the updated visitor state and diagnostics *)
Definition mk_variant (gens : list string) (used : list string) (m : method) (ma : msg_attr) (fwd : list string)
  : variant * list string * list diag :=
  let fields := map mk_field (m_args m) in
  let used1 := fold_left (fun u f => visit_ty gens u (f_sty f)) fields used in
  let d0 := if has_sv_attr (m_self_attrs m) || has_sv_attr (m_ctx_attrs m) then [DSvAttrOnSelfOrCtx] else [] in
  match ma_kind ma with
  | KQuery =>
      match ma_resp ma with
      | Some r =>
          ({| v_name := upper_camel (m_name m); v_fn := m_name m; v_fields := fields; v_ret := Some (TName r);
              v_msg := ma; v_fwd := fwd |}, visit_ty gens used1 (TName r), d0)
      | None =>
          match extract_return (m_ret m) with
          | Some r =>
              ({| v_name := upper_camel (m_name m); v_fn := m_name m; v_fields := fields; v_ret := Some r;
                  v_msg := ma; v_fwd := fwd |}, visit_ty gens used1 (strip_self r),
               d0 ++ (if is_result_head (m_ret m) then [] else [DBadReturnType]))
          | None =>
              ({| v_name := upper_camel (m_name m); v_fn := m_name m; v_fields := fields; v_ret := None;
                  v_msg := ma; v_fwd := fwd |}, used1, d0 ++ [DBadReturnType])
          end
      end
  | _ =>
      ({| v_name := upper_camel (m_name m); v_fn := m_name m; v_fields := fields; v_ret := None;
          v_msg := ma; v_fwd := fwd |}, used1, d0)
  end.

Record variants := {
  vs_kind : kind;
  vs_list : list variant;
  vs_used : list string;          (* first-use order *)
  vs_unused : list string;        (* declaration order *)
  vs_where : list wpred;          (* predicates that mention used parameters only *)
  vs_diags : list diag
}.

(* MsgVariants::new: scan the methods in source order, keep those annotated with kind k *)
Fixpoint scan (gens : list string) (k : kind) (ms : list method) (used : list string)
  : list variant * list string * list diag :=
  match ms with
  | [] => ([], used, [])
  | m :: r =>
      let p := parse_attrs (m_attrs m) in
      match p_msg p with
      | Some ma =>
          if kind_eqb (ma_kind ma) k then
            let '(v, used1, d) := mk_variant gens used m ma (p_variant_attrs p) in
            let '(vs, used2, ds) := scan gens k r used1 in
            (v :: vs, used2, p_diags p ++ d ++ ds)
          else
            let '(vs, used2, ds) := scan gens k r used in (vs, used2, p_diags p ++ ds)
      | None =>
          let '(vs, used2, ds) := scan gens k r used in (vs, used2, p_diags p ++ ds)
      end
  end.

Definition mk_variants (ms : list method) (k : kind) (gens : list string) (wh : list wpred) : variants :=
  let '(vs, used, ds) := scan gens k ms [] in
  {| vs_kind := k; vs_list := vs; vs_used := used;
     vs_unused := filter (fun g => negb (mem g used)) gens;
     vs_where := filter_wheres wh gens used; vs_diags := ds |}.

(* The list published by `<kind>_messages()` and consulted by the wrapper: MsgVariants::as_names_snake_cased
   followed by `sort()`. *)
Definition table_name (v : variant) : string := serde_snake (v_name v).
Definition table_of (vs : list variant) : list string := sort (map table_name vs).

(* the key serde writes for a variant under `rename_all = "snake_case"` *)
Definition variant_wire (v : variant) : string := serde_snake (v_name v).

(* constructor / helper method name *)
Definition ctor_name (v : variant) : string := snake (v_name v).

(* ------------------------------------------------------------------------------------------ *)
(* Generated message types. *)

Definition attr_text (a : attr) : string :=
  match a with
  | AForeign _ t => t
  | ASv n _ => ("#[sv::" ++ n ++ "(..)]")%string
  end.

Record field_out := { fo_name : string; fo_ty : ty; fo_attrs : list string }.

Record variant_out := {
  vo_name : string; vo_fn : string; vo_fields : list field_out; vo_attrs : list string; vo_returns : option ty
}.

Record enum_out := {
  eo_kind : kind;
  eo_name : string;
  eo_generics : list string;
  eo_where : list wpred;                  (* on the inherent impl / the enum, see show *)
  eo_variants : list variant_out;
  eo_phantom : bool;
  eo_attrs : list string;                 (* forwarded by sv::msg_attr *)
  eo_dispatch_generics : list string;
  eo_table : list string;
  eo_ctors : list string
}.

Definition out_field (f : field) : field_out :=
  {| fo_name := f_name f; fo_ty := f_sty f; fo_attrs := map attr_text (f_attrs f) |}.

Definition out_variant (v : variant) : variant_out :=
  {| vo_name := v_name v; vo_fn := v_fn v; vo_fields := map out_field (v_fields v); vo_attrs := v_fwd v;
     vo_returns := match ma_kind (v_msg v), v_ret v with KQuery, Some r => Some (strip_self r) | _, _ => None end |}.

Definition fwd_for (k : kind) (l : list (kind * string)) : list string :=
  map snd (filter (fun p => kind_eqb (fst p) k) l).

(* impl_where: the where clause of the inherent impl block. The contract macro emits none there
   (its dispatch fn carries the full user where clause); the interface macro emits the filtered
   associated-type bounds. The enum item itself never carries a where clause. *)
Definition mk_enum (name : string) (item_attrs : parsed) (vs : variants) (impl_where : list wpred) : enum_out :=
  {| eo_kind := vs_kind vs; eo_name := name; eo_generics := vs_used vs; eo_where := impl_where;
     eo_variants := map out_variant (vs_list vs);
     eo_phantom := match vs_used vs with [] => false | _ => true end;
     eo_attrs := fwd_for (vs_kind vs) (p_msg_attrs item_attrs);
     eo_dispatch_generics := vs_unused vs;
     eo_table := table_of (vs_list vs);
     eo_ctors := map ctor_name (vs_list vs) |}.

Record struct_out := {
  so_kind : kind; so_name : string; so_generics : list string; so_where : list wpred;
  so_fields : list field_out; so_attrs : list string; so_dispatch_generics : list string; so_fn : string
}.

(* StructMessage::new / emit *)
Definition mk_struct (item_attrs : parsed) (vs : variants) : option struct_out * list diag :=
  match vs_list vs with
  | [] => (None, if kind_eqb (vs_kind vs) KInst then [DNoInstantiate] else [])
  | [v] =>
      (Some {| so_kind := vs_kind vs; so_name := msg_name (vs_kind vs); so_generics := vs_used vs;
               so_where := vs_where vs; so_fields := map out_field (v_fields v);
               so_attrs := fwd_for (vs_kind vs) (p_msg_attrs item_attrs);
               so_dispatch_generics := vs_unused vs; so_fn := v_fn v |}, [])
  | _ :: _ :: _ => (None, [DManyStructMsgs])
  end.

(* GlueMessage: one variant per interface in attribute order, then the contract itself *)
Record wrapper_out := {
  wo_kind : kind;
  wo_name : string;
  wo_variants : list (string * string);        (* variant name, accessor of the wrapped type *)
  wo_modules : list (list string);             (* whose `<ep>_messages()` tables are consulted, in order; [] = the contract *)
  wo_bridged : list (string * bool * bool)     (* per interface variant: response bridged (custom msg), ctx bridged (custom query) *)
}.

Definition mk_wrapper (c_name : string) (k : kind) (ifs : list messages_attr) : wrapper_out :=
  {| wo_kind := k; wo_name := wrapper_name k;
     wo_variants := map (fun i => (ms_variant i, accessor_name k)) ifs ++ [(c_name, accessor_name k)];
     wo_modules := map ms_module ifs ++ [[]];
     wo_bridged :=
       map (fun i => (ms_variant i,
                      (match k with KExec | KSudo => ms_custom_msg i | _ => false end),
                      (match k with KExec | KQuery | KSudo => ms_custom_query i | _ => false end))) ifs |}.

Record contract_out := {
  co_inst : option struct_out;
  co_migrate : option struct_out;
  co_exec : enum_out;
  co_query : enum_out;
  co_sudo : enum_out;
  co_wrappers : list wrapper_out;
  co_item : parsed;
  co_diags : list diag
}.

Definition new_diags (c : contract) : list diag :=
  if c_has_new c then (if c_new_has_params c then [DNewHasParams] else []) else [DNoNew].

Definition expand_contract (c : contract) : contract_out :=
  let it := parse_attrs (c_attrs c) in
  let mk k := mk_variants (c_methods c) k (c_generics c) (c_where c) in
  let '(inst, d_inst) := mk_struct it (mk KInst) in
  let '(migr, d_migr) := mk_struct it (mk KMigrate) in
  {| co_inst := inst; co_migrate := migr;
     co_exec := mk_enum (msg_name KExec) it (mk KExec) [];
     co_query := mk_enum (msg_name KQuery) it (mk KQuery) [];
     co_sudo := mk_enum (msg_name KSudo) it (mk KSudo) [];
     co_wrappers := map (fun k => mk_wrapper (c_name c) k (p_messages it)) [KExec; KQuery; KSudo];
     co_item := it;
     co_diags := new_diags c ++ p_diags it ++ vs_diags (mk KInst) ++ d_inst ++ vs_diags (mk KExec)
                 ++ vs_diags (mk KQuery) ++ vs_diags (mk KSudo) ++ vs_diags (mk KMigrate) ++ d_migr |}.

(* ---- interfaces ---- *)
Record iface_out := {
  io_exec : enum_out; io_query : enum_out; io_sudo : enum_out; io_item : parsed; io_diags : list diag
}.

Definition assoc_names (i : iface) : list string :=
  filter (fun n => negb (n =? "Error")) (map fst (i_assoc i)).

Definition assoc_where (i : iface) : list wpred :=
  map (fun p : string * list ty => {| w_bounded := TName (fst p); w_bounds := snd p |})
      (filter (fun p : string * list ty => negb (fst p =? "Error")) (i_assoc i)).

Definition expand_iface (i : iface) : iface_out :=
  let it := parse_attrs (i_attrs i) in
  let gens := assoc_names i in
  let mk k := mk_variants (i_methods i) k gens (assoc_where i) in
  let inst := mk_variants (i_methods i) KInst [] [] in
  let migr := mk_variants (i_methods i) KMigrate [] [] in
  {| io_exec := mk_enum (i_name i ++ msg_name KExec)%string it (mk KExec) (vs_where (mk KExec));
     io_query := mk_enum (i_name i ++ msg_name KQuery)%string it (mk KQuery) (vs_where (mk KQuery));
     io_sudo := mk_enum (i_name i ++ msg_name KSudo)%string it (mk KSudo) (vs_where (mk KSudo));
     io_item := it;
     io_diags :=
       (match i_generics i with [] => [] | _ => [DIfaceGenerics] end)
       ++ (if mem "Error" (map fst (i_assoc i)) then [] else [DIfaceNoError])
       (* AssociatedTypes::as_where_predicates: `parse_quote!{ #name #colon #bounds }` panics on `type T;` *)
       ++ (if existsb (fun p : string * list ty => negb (fst p =? "Error") && match snd p with [] => true | _ => false end)
                      (i_assoc i) then [DIfaceAssocUnbounded] else [])
       ++ p_diags it ++ vs_diags (mk KExec) ++ vs_diags (mk KQuery) ++ vs_diags (mk KSudo)
       ++ (match vs_list inst with [] => [] | _ => [DIfaceInstantiate] end)
       ++ (match vs_list migr with [] => [] | _ => [DIfaceMigrate] end) |}.
