(* Executable form of the translated run-time library code (GenImp.v) for the correspondence runs: the overlap
   check of sylvia/src/utils.rs run under the semantics of Model/Imp.v on the same inputs as the real function.
   Definitions only. *)
From Coq Require Import String List Bool Arith.
Require Import SV.Model.Imp SV.Model.GenImp SV.Model.Intersect.
Import ListNotations.
Open Scope string_scope.
Open Scope list_scope.

(* Rust values of the model's data: `State`, `[State; N]`, `[&[&str]; N]` *)
Definition enc_st (s : st) : value :=
  match s with
  | Ongoing i => VCon "State::Ongoing" [VNat i]
  | Finished i => VCon "State::Finished" [VNat i]
  | Empty => VCon "State::Empty" []
  end.
Definition enc_sts (sts : list st) : value := VArr (map enc_st sts).
Definition enc_ls (ls : list (list string)) : value := VArr (map (fun l => VArr (map VStr l)) ls).


Definition imp_fuel (ls : list (list string)) : nat := 60 * S (length (concat ls)) * S (length ls) + 100.

Definition imp_run_case (ls : list (list string)) : list string :=
  [match call utils_program 3 (imp_fuel ls) "assert_no_intersection" [enc_ls ls] with
   | Some (CVal VUnit) => "done"
   | Some (CPanic "panic" _) => "panic"
   | Some (CPanic _ _) => "stuck"
   | Some _ => "other"
   | None => "nofuel"
   end].

(* ---- sylvia/src/into_response.rs (GenImp.resp_program) run on an encoded response ---- *)
Fixpoint insert_field (f : string * value) (l : list (string * value)) : list (string * value) :=
  match l with
  | [] => [f]
  | g :: r => match String.compare (fst f) (fst g) with Gt => g :: insert_field f r | _ => f :: l end
  end.

(* records compared up to the order of their fields *)
Fixpoint norm_value (v : value) : value :=
  match v with
  | VArr l => VArr (map norm_value l)
  | VCon c l => VCon c (map norm_value l)
  | VRec c fs => VRec c (fold_right insert_field [] (map (fun p : string * value => (fst p, norm_value (snd p))) fs))
  | _ => v
  end.

Definition resp_outcome (E : list string) (n : nat) (v : value) : list string :=
  [match call (resp_program E) 3 (60 * S n + 100) "Response::into_response" [v] with
   | Some (CVal (VCon "Ok" [v'])) => if value_eqb (norm_value v) (norm_value v') then "same" else "changed"
   | Some (CVal (VCon "Err" [VCon "From::from" [VCon "From::from" [VCon "StdError::GenericErr" [VStr m]]]])) =>
       if m =? "Custom Empty message should not be sent" then "custom" else "error"
   | Some (CVal (VCon "Err" _)) => "error"
   | Some _ => "other"
   | None => "stuck"
   end].
