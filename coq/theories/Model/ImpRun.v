(* Executable form of the translated run-time library code (GenImp.v) for the correspondence runs: the overlap
   check of sylvia/src/utils.rs run under the semantics of Model/Imp.v on the same inputs as the real function.
   Definitions only. *)
From Coq Require Import String List Bool Arith.
Require Import SV.Model.Imp SV.Model.GenImp SV.Model.Intersect.
Import ListNotations.
Open Scope string_scope.
Open Scope list_scope.

(* Rust values of the model's data: `State`, `[State; N]`, `[&[&str]; N]` *)
Definition enc_st (s : st) : value :=
  match s with
  | Ongoing i => VCon "State::Ongoing" [VNat i]
  | Finished i => VCon "State::Finished" [VNat i]
  | Empty => VCon "State::Empty" []
  end.
Definition enc_sts (sts : list st) : value := VArr (map enc_st sts).
Definition enc_ls (ls : list (list string)) : value := VArr (map (fun l => VArr (map VStr l)) ls).


Definition imp_fuel (ls : list (list string)) : nat := 60 * S (length (concat ls)) * S (length ls) + 100.

Definition imp_run_case (ls : list (list string)) : list string :=
  [match call utils_program 3 (imp_fuel ls) "assert_no_intersection" [enc_ls ls] with
   | Some (CVal VUnit) => "done"
   | Some (CPanic "panic" _) => "panic"
   | Some (CPanic _ _) => "stuck"
   | Some _ => "other"
   | None => "nofuel"
   end].
