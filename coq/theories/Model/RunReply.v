(* Executable glue for the reply correspondence checks: a concrete universe for the envelope parsers
   (tagged byte strings), renderers of the reply table (L1) and of dispatch / builder results (L2). *)
From Coq Require Import String List Bool NArith ZArith.
Require Import SV.Base.Json SV.Model.Kinds SV.Model.GenTables SV.Model.Casing SV.Model.Syntax SV.Model.Expand SV.Model.Reply SV.Model.Run.
Import ListNotations.
Open Scope string_scope.
Open Scope list_scope.

(* tagged data: the harness maps each tag to really crafted bytes *)
Definition u_parse_exec (s : string) : option (option string) :=
  if s =? "ENV_BAD" then None else if s =? "INNER_NONE" then Some None else Some (Some s).
Definition u_parse_inst (s : string) : option json := if s =? "ENV_BAD" then None else Some (JStr s).
Definition u_dec_json (ty s : string) : option json := if prefix "JSON_BAD" s then None else Some (JStr s).

Definition show_N (n : N) : string := show_Z (Z.of_N n).
Definition show_ostr (o : option string) : string := match o with Some s => "some:" ++ s | None => "none" end.
Definition show_ojson (o : option json) : string := match o with Some j => "some:" ++ show_json j | None => "none" end.

Definition show_data (d : data_val) : string :=
  match d with
  | DRaw b => "raw:" ++ b | DRawOpt b => "rawopt:" ++ show_ostr b
  | DTyped v => "typed:" ++ show_json v | DOpt v => "opt:" ++ show_ojson v
  | DInst v => "inst:" ++ show_json v | DInstOpt v => "instopt:" ++ show_ojson v
  end.

Definition show_rarg (a : rarg) : string :=
  match a with
  | AData d => "data=" ++ show_data d
  | AError e => "error=" ++ e
  | AResult (SubOk _) => "result=ok"
  | AResult (SubErr e) => "result=err:" ++ e
  | APayloadRaw b => "raw=" ++ b
  | APayloadVal v => "val=" ++ show_json v
  end.

Definition show_rerr (e : rerr) : string :=
  match e with
  | EUnknownId _ => "unknown_id" | EPayload => "payload" | EDataMissing => "data_missing"
  | EDataProtobuf => "data_protobuf" | EDataJson => "data_json" | ESubError e => "sub_error:" ++ e
  end.

Definition show_rres (r : @rres unit) : list string :=
  match r with
  | RCalled fn c args _ =>
      (["called"; fn; ("gas=" ++ show_N (rc_gas c))%string; ("events=" ++ show_nat (length (rc_events c)))%string;
        ("msgs=" ++ show_nat (length (rc_msg_responses c)))%string] ++ map show_rarg args)%list
  | RPass ev d => ["pass"; ("events=" ++ show_nat (length ev))%string; ("data=" ++ show_ostr d)%string]
  | RErr e => ["err"; show_rerr e]
  end.

Definition reply_table (c : contract) : list reply_data * list rdiag := build_table (reply_methods (c_methods c)).

(* run a reply through the table of contract c; `parsed` = the JSON tree of the payload text, if it parses *)
Definition run_reply (c : contract) (parsed : option json) (r : reply) : list string :=
  show_rres (dispatch_reply u_parse_exec u_parse_inst u_dec_json unit (fun _ _ _ => tt) (fun _ => parsed)
                            (fst (reply_table c)) r).

(* ---- L1: the table as key=value lines ---- *)
Definition data_mode_name (f : rfield) : string :=
  match rf_data f with
  | None => "none"
  | Some d =>
      if dp_raw d && dp_opt d then "raw_opt" else if dp_raw d then "raw"
      else if dp_inst d && dp_opt d then "inst_opt" else if dp_inst d then "inst"
      else if dp_opt d then "opt" else "typed"
  end.

Definition payload_mode (p : list rfield) : string :=
  if is_payload_marked p then "raw(" ++ (match p with f :: _ => rf_name f | [] => "" end) ++ ")"
  else "typed(" ++ String.concat "," (map rf_name p) ++ ")".

Definition show_arm_ok (rd : reply_data) : string :=
  match success_handler rd with
  | Some (fn, ROSuccess) =>
      "success:" ++ fn ++ ":" ++ (match rd_data rd with Some f => data_mode_name f | None => "none" end) ++ ":" ++ payload_mode (rd_payload rd)
  | Some (fn, _) => "always:" ++ fn ++ ":" ++ payload_mode (rd_payload rd)
  | None => "pass"
  end.

Definition show_arm_err (rd : reply_data) : string :=
  match error_handler rd with
  | Some (fn, ROError) => "error:" ++ fn ++ ":" ++ payload_mode (rd_payload rd)
  | Some (fn, _) => "always:" ++ fn ++ ":" ++ payload_mode (rd_payload rd)
  | None => "pass"
  end.

Definition cw_name (r : reply_on) : string := match r with ROSuccess => "Success" | ROError => "Error" | ROAlways => "Always" end.

Definition show_rd (rd : reply_data) : list string :=
  [ ("reply " ++ rd_reply_id rd ++ " ok=" ++ show_arm_ok rd)%string;
    ("reply " ++ rd_reply_id rd ++ " err=" ++ show_arm_err rd)%string;
    ("reply " ++ rd_reply_id rd ++ " builder=" ++ rd_handler_id rd ++ ":" ++ cw_name (cw_reply_on rd) ++ ":"
      ++ String.concat "," (map (fun f => rf_name f ++ ":" ++ rf_ty f)%string (rd_payload rd)) ++ ":" ++ payload_mode (rd_payload rd))%string ].

Definition has_replies_feature (c : contract) : bool := p_replies (parse_attrs (c_attrs c)).

Definition show_reply_contract (c : contract) : list string :=
  let o := expand_contract c in
  let '(t, ds) := reply_table c in
  match co_diags o, (if has_replies_feature c then ds else []) with
  | [], [] =>
      if has_replies_feature c then
        "status=accepted" :: ("reply_ids=" ++ String.concat "," (map rd_reply_id t))%string :: flat_map show_rd t
      else ["status=accepted"; "reply_ids=<legacy>"]
  | _, _ => ["status=rejected"]
  end.

(* ---- builders ---- *)
Definition run_build (c : contract) (hid : string) (recv : receiver) (text : option string) (a : payload_arg) : list string :=
  let t := fst (reply_table c) in
  match id_of t hid, find_rd t (reply_id_of hid) with
  | Some i, Some rd =>
      let '(msg, fields) := build_submsg (fun j => match text with Some s => s | None => show_json j end) i rd recv a in
      ["ok"; show_json msg; show_json (JObj fields)]
  | _, _ => ["no such handler"]
  end.
