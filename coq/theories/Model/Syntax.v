(* Abstract syntax of exactly the things the macros look at. The harness renders every generated
   program both to Rust source and to a term of these types. *)
From Coq Require Import String List Bool.
Import ListNotations.
Open Scope string_scope.

(* Types: paths with generic arguments, tuples, references. *)
Inductive ty :=
| TPath (segs : list (string * list ty))
| TTuple (items : list ty)
| TRef (t : ty).

(* `sv::..` attributes, pre-parsed by the harness into their argument structure; every name that
   the real parser looks up in a table stays a *string* here and is looked up in GenTables. *)
Inductive sv_body :=
| SvMsg (kind_name : string) (resp : option string) (handlers : list string) (reply_on : option string)
| SvAttr (toks : string)
| SvMsgAttr (kind_name : string) (toks : string)
| SvMessages (module : list string) (as_name : option string) (custom_msg custom_query : bool)
| SvOverride (kind_name : string) (entry_point : string) (msg : string)
| SvCustom (msg query : option string)
| SvError (t : string)
| SvFeatures (names : list string)
| SvData (flags : list string)
| SvPayload (flags : list string).

Inductive attr :=
| AForeign (path : list string) (text : string)      (* any other attribute; text = its canonical tokens *)
| ASv (name : string) (body : sv_body).              (* `#[sv::name(..)]` *)

Record arg := mkArg { a_name : string; a_ty : ty; a_attrs : list attr }.

Record method := mkMethod {
  m_name : string;
  m_attrs : list attr;
  m_args : list arg;              (* after `self` and `ctx` *)
  m_ret : ty;
  m_self_attrs : list attr;
  m_ctx_attrs : list attr
}.

Record wpred := mkWPred { w_bounded : ty; w_bounds : list ty }.

Record contract := mkContract {
  c_name : string;
  c_generics : list string;
  c_where : list wpred;
  c_attrs : list attr;
  c_methods : list method;
  c_has_new : bool;
  c_new_has_params : bool
}.

Record iface := mkIface {
  i_name : string;
  i_assoc : list (string * list ty);      (* associated types with their bounds, `Error` included *)
  i_attrs : list attr;
  i_methods : list method;
  i_generics : list string                (* must be empty *)
}.

(* ---- structural helpers on types ---- *)
Definition TName (n : string) : ty := TPath [(n, [])].

(* canonical token text of a type, no whitespace: `Vec<Option<T>>`, `(A,B)`, `(A,)`, `&T` *)
Fixpoint show_ty (t : ty) : string :=
  match t with
  | TPath segs =>
      String.concat "::"
        (map (fun s : string * list ty =>
                let '(n, args) := s in
                match args with
                | [] => n
                | _ => n ++ "<" ++ String.concat "," (map show_ty args) ++ ">"
                end) segs)
  | TTuple [x] => "(" ++ show_ty x ++ ",)"
  | TTuple items => "(" ++ String.concat "," (map show_ty items) ++ ")"
  | TRef x => "&" ++ show_ty x
  end.

Definition ty_eqb (a b : ty) : bool := String.eqb (show_ty a) (show_ty b).
