(* Model of sylvia's run-time library (sylvia/src): IntoMsg / IntoResponse (into_response.rs),
   Remote, ExecutorBuilder (types.rs), InstantiateBuilder (builder/instantiate.rs).
   The arm table of `IntoMsg::into_msg`, the field map of the `SubMsg` it rebuilds and the serde
   description of `Remote` are regenerated from the Rust source into GenLib.v. Definitions only. *)
From Coq Require Import String List Bool ZArith.
Require Import SV.Base.Json SV.Model.GenLib.
Import ListNotations.
Open Scope string_scope.
Open Scope list_scope.

(* ------------------------------------------------------------------------------------------ *)
(* Responses. A `CosmosMsg` is its variant name and an opaque body. *)
Record cosmos_msg := { cm_variant : string; cm_body : json }.

(* a SubMsg as the list of its fields other than `msg` (id, gas_limit, reply_on, payload), each an
   opaque value, so that a dropped / swapped field of the rebuilt struct is a visible difference *)
Record submsg := { sm_msg : cosmos_msg; sm_fields : list (string * json) }.

Record response := {
  r_messages : list submsg;
  r_attributes : list (string * string);
  r_events : list json;
  r_data : option string
}.

(* The variants of cosmwasm_std::CosmosMsg: regenerated from the source of the pinned cosmwasm-std (GenLib), each with
   the cosmwasm-std features that define it. *)
Definition cosmos_variants : list string := map fst cosmos_variant_features.

(* ---- cargo features. A build chooses a set of sylvia features (any subset of sylvia/Cargo.toml's [features]); a
   feature implies others and enables cosmwasm-std features (the regenerated table `sylvia_features`). It is assumed
   that cosmwasm-std's features are enabled through sylvia's only. *)
Definition feature_names : list string := map fst sylvia_features.
Definition memb (x : string) (l : list string) : bool := existsb (String.eqb x) l.

Definition implied_by (f : string) : list string :=
  match lookup f sylvia_features with Some (imp, _) => imp | None => [] end.
Definition forwards (f : string) : list string :=
  match lookup f sylvia_features with Some (_, fwd) => fwd | None => [] end.

Fixpoint add_new (xs acc : list string) : list string :=
  match xs with
  | [] => acc
  | x :: r => if memb x acc then add_new r acc else add_new r (acc ++ [x])
  end.
Fixpoint close (n : nat) (F : list string) : list string :=
  match n with
  | 0 => F
  | S n' => close n' (add_new (flat_map implied_by F) F)
  end.
(* every chain of implications is shorter than the number of features *)
Definition enabled (F : list string) : list string := close (length sylvia_features) F.
Definition std_enabled (F : list string) : list string := flat_map forwards (enabled F).

(* the variant exists in cosmwasm-std given the enabled cosmwasm-std features S / the arm exists in sylvia given the
   enabled sylvia features E *)
Definition variant_in (S : list string) (v : string) : bool :=
  match lookup v cosmos_variant_features with
  | Some fs => forallb (fun f => memb f S) fs
  | None => false
  end.
Definition arm_in (E : list string) (v : string) : bool :=
  match lookup v into_msg_arm_features with
  | Some fs => forallb (fun f => memb f E) fs
  | None => false
  end.
Definition variant_present (F : list string) (v : string) : bool := variant_in (std_enabled F) v.
Definition arm_present (F : list string) (v : string) : bool := arm_in (enabled F) v.
Definition features_agree (F : list string) : bool :=
  let E := enabled F in
  let S := flat_map forwards E in
  forallb (fun v => Bool.eqb (variant_in S v) (arm_in E v)) cosmos_variants.

(* all subsets of a list, as sublists *)
Fixpoint sublists {A} (l : list A) : list (list A) :=
  match l with
  | [] => [[]]
  | x :: r => let s := sublists r in map (cons x) s ++ s
  end.

Definition is_custom (m : cosmos_msg) : bool := cm_variant m =? "Custom".

Inductive lib_err := ErrCustomMsg | ErrUnknownVariant (v : string).

Definition arm_of (v : string) : option string := lookup v into_msg_arms.

(* the struct literal `SubMsg { msg, id: self.id, .. }`: each target field takes the value of the named source *)
Definition rebuild_fields (src : list (string * json)) : list (string * json) :=
  flat_map (fun p : string * string =>
              let '(tgt, from) := p in
              if tgt =? "msg" then []
              else match lookup from src with Some v => [(tgt, v)] | None => [(tgt, JNull)] end)
           submsg_field_map.

Definition into_msg (s : submsg) : lib_err + submsg :=
  match arm_of (cm_variant (sm_msg s)) with
  | Some a =>
      if a =? "keep" then inr {| sm_msg := sm_msg s; sm_fields := rebuild_fields (sm_fields s) |}
      else inl ErrCustomMsg
  | None => inl (ErrUnknownVariant (cm_variant (sm_msg s)))
  end.

(* `.map(into_msg).collect::<StdResult<Vec<_>>>()`: the first error wins, nothing is kept *)
Fixpoint collect_msgs (l : list submsg) : lib_err + list submsg :=
  match l with
  | [] => inr []
  | s :: r =>
      match into_msg s with
      | inl e => inl e
      | inr s' => match collect_msgs r with inl e => inl e | inr r' => inr (s' :: r') end
      end
  end.

Definition into_response (r : response) : lib_err + response :=
  match collect_msgs (r_messages r) with
  | inl e => inl e
  | inr ms => inr {| r_messages := ms; r_attributes := r_attributes r; r_events := r_events r; r_data := r_data r |}
  end.

(* the canonical field list of a SubMsg *)
Definition submsg_field_names : list string := ["id"; "gas_limit"; "reply_on"; "payload"].
Definition wf_submsg (s : submsg) : Prop := map fst (sm_fields s) = submsg_field_names.

(* ------------------------------------------------------------------------------------------ *)
(* Remote<'a, Contract>: derive(Serialize, Deserialize) over the regenerated field description. *)
Definition field_skipped (f : string * string * list string) : bool :=
  existsb (fun a => a =? "serde(skip)") (snd f).
Definition field_name (f : string * string * list string) : string := fst (fst f).

(* fields that take part in the encoding; any other serde attribute (rename, flatten, ...) is not
   understood by this model and makes the description unsupported *)
Definition remote_plain : bool :=
  forallb (fun f : string * string * list string =>
             forallb (fun a => (a =? "serde(skip)")) (snd f)) remote_fields
  && forallb (fun a => negb (prefix "serde(" a)) remote_type_attrs.

Definition remote_wire_fields : list string := map field_name (filter (fun f => negb (field_skipped f)) remote_fields).

(* the type parameter and the ownership (Cow::Owned / Cow::Borrowed) are arguments, to state that they do not matter *)
Definition encode_remote (type_param : string) (owned : bool) (addr : string) : option json :=
  if remote_plain then
    match remote_wire_fields with
    | [f] => Some (JObj [(f, JStr addr)])
    | _ => None
    end
  else None.

(* derive(Deserialize) of a one-field struct: unknown members ignored, the member required, a string *)
Definition decode_remote (type_param : string) (j : json) : option string :=
  if remote_plain then
    match remote_wire_fields, j with
    | [f], JObj members =>
        match count_key f members, lookup f members with
        | 1, Some (JStr a) => Some a
        | _, _ => None
        end
    | _, _ => None
    end
  else None.

(* ------------------------------------------------------------------------------------------ *)
(* Builders (hand-modelled, checked by L3). Values are opaque JSON trees. *)
Record inst_builder := { ib_msg : json; ib_code_id : json; ib_admin : option string; ib_label : option string; ib_funds : json }.

Inductive ib_step := IBLabel (l : string) | IBAdmin (a : string) | IBFunds (f : json).

Definition ib_new (msg code_id : json) : inst_builder :=
  {| ib_msg := msg; ib_code_id := code_id; ib_admin := None; ib_label := None; ib_funds := JArr [] |}.

Definition ib_apply (b : inst_builder) (s : ib_step) : inst_builder :=
  match s with
  | IBLabel l => {| ib_msg := ib_msg b; ib_code_id := ib_code_id b; ib_admin := ib_admin b; ib_label := Some l; ib_funds := ib_funds b |}
  | IBAdmin a => {| ib_msg := ib_msg b; ib_code_id := ib_code_id b; ib_admin := Some a; ib_label := ib_label b; ib_funds := ib_funds b |}
  | IBFunds f => {| ib_msg := ib_msg b; ib_code_id := ib_code_id b; ib_admin := ib_admin b; ib_label := ib_label b; ib_funds := f |}
  end.

Definition opt_str_json (o : option string) : json := match o with Some s => JStr s | None => JNull end.

(* WasmMsg as serde writes it: {"instantiate": {...}} / {"instantiate2": {...}} / {"execute": {...}} *)
Definition ib_build (b : inst_builder) (salt : option json) : json :=
  let common := [("admin", opt_str_json (ib_admin b)); ("code_id", ib_code_id b); ("msg", ib_msg b);
                 ("funds", ib_funds b); ("label", JStr (match ib_label b with Some l => l | None => "" end))] in
  match salt with
  | None => JObj [("instantiate", JObj common)]
  | Some s => JObj [("instantiate2", JObj (common ++ [("salt", s)]))]
  end.

Record exec_builder := { eb_contract : string; eb_funds : json; eb_msg : json }.
Definition eb_new (addr : string) : exec_builder := {| eb_contract := addr; eb_funds := JArr []; eb_msg := JNull |}.
Definition eb_with_funds (b : exec_builder) (f : json) : exec_builder :=
  {| eb_contract := eb_contract b; eb_funds := f; eb_msg := eb_msg b |}.
(* the generated method: encodes the message and moves to the ready state keeping address and funds *)
Definition eb_call (b : exec_builder) (msg : json) : exec_builder :=
  {| eb_contract := eb_contract b; eb_funds := eb_funds b; eb_msg := msg |}.
Definition eb_build (b : exec_builder) : json :=
  JObj [("execute", JObj [("contract_addr", JStr (eb_contract b)); ("msg", eb_msg b); ("funds", eb_funds b)])].

Definition remote_update_admin (addr admin : string) : json :=
  JObj [("update_admin", JObj [("contract_addr", JStr addr); ("admin", JStr admin)])].
Definition remote_clear_admin (addr : string) : json :=
  JObj [("clear_admin", JObj [("contract_addr", JStr addr)])].
