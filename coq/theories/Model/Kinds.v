(* Message kinds and the documented attribute spellings (the specification side of the
   string <-> kind tables that are regenerated from the Rust source into GenTables.v). *)
From Coq Require Import String List Bool.
Import ListNotations.
Open Scope string_scope.

Inductive kind := KInst | KExec | KQuery | KMigrate | KReply | KSudo.

Definition kind_eqb (a b : kind) : bool :=
  match a, b with
  | KInst, KInst | KExec, KExec | KQuery, KQuery | KMigrate, KMigrate | KReply, KReply | KSudo, KSudo => true
  | _, _ => false
  end.

Definition all_kinds : list kind := [KInst; KExec; KQuery; KMigrate; KReply; KSudo].

(* The spelling documented for `#[sv::msg(..)]`, `#[sv::msg_attr(..)]`, `#[sv::override_entry_point(..)]`. *)
Definition kind_attr_name (k : kind) : string :=
  match k with
  | KInst => "instantiate" | KExec => "exec" | KQuery => "query"
  | KMigrate => "migrate" | KReply => "reply" | KSudo => "sudo"
  end.

(* The names CosmWasm gives to the six entry points. *)
Definition cw_entry_point_name (k : kind) : string :=
  match k with
  | KInst => "instantiate" | KExec => "execute" | KQuery => "query"
  | KMigrate => "migrate" | KReply => "reply" | KSudo => "sudo"
  end.

Inductive reply_on := ROSuccess | ROError | ROAlways.

Definition reply_on_eqb (a b : reply_on) : bool :=
  match a, b with
  | ROSuccess, ROSuccess | ROError, ROError | ROAlways, ROAlways => true
  | _, _ => false
  end.

Definition reply_on_attr_name (r : reply_on) : string :=
  match r with ROSuccess => "success" | ROError => "error" | ROAlways => "always" end.

Definition reply_on_of_tag (t : string) : option reply_on :=
  if t =? "Success" then Some ROSuccess else if t =? "Error" then Some ROError
  else if t =? "Always" then Some ROAlways else None.

(* Stand-ins the translator emits for a table it could not regenerate (never a stale copy): constant, but opaque to
   `simpl` / `cbn`, so that proofs which only pass such a table around - and do not depend on its content - still go
   through, while every proof ABOUT the table fails. Executable (`vm_compute` ignores opacity). *)
Definition stub_opt {A : Type} (s : String.string) : option A := None.
Definition stub_str (k : kind) : String.string := String.EmptyString.
Definition stub_list (k : kind) : list String.string := nil.
Global Opaque stub_opt stub_str stub_list.
