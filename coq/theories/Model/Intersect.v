(* Model of sylvia::utils::assert_no_intersection (sylvia/src/utils.rs), step for step:
   init_states, should_end, get_next_alphabetical_index, verify_no_collissions, the cursor update.
   Every index access is `nth_error`, so an out-of-range index, the `unreachable!()` arm and fuel
   exhaustion are the distinct outcome `Stuck`. Definitions only; proofs in Facts/IntersectFacts.v. *)
From Coq Require Import List Arith Bool.
From Coq Require String.
Import ListNotations.
Import String.StringSyntax.
Delimit Scope string_scope with string.

Class Ord (A : Type) := { ltb : A -> A -> bool; eqb : A -> A -> bool }.

Fixpoint set_nth {B} (l : list B) (k : nat) (v : B) : list B :=
  match l, k with
  | [], _ => []
  | _ :: r, 0 => v :: r
  | x :: r, S k' => x :: set_nth r k' v
  end.


Inductive st := Ongoing (i : nat) | Finished (i : nat) | Empty.
Inductive outcome := Done | Panic | Stuck.

Section Merge.
Context {A : Type} {O : Ord A}.


Definition is_ongoing (s : st) : bool := match s with Ongoing _ => true | _ => false end.

Definition init_states (ls : list (list A)) : list st :=
  map (fun l => match l with [] => Empty | _ => Ongoing 0 end) ls.

Definition should_end (sts : list st) : bool := forallb (fun s => negb (is_ongoing s)) sts.

Definition elem (ls : list (list A)) (k i : nat) : option A :=
  match nth_error ls k with Some l => nth_error l i | None => None end.

Definition next_step (ls : list (list A)) (sts : list st) (out i : nat) : option nat :=
  match nth_error sts i with
  | Some (Ongoing oi) =>
      match nth_error sts out with
      | Some (Ongoing ii) =>
          match elem ls out ii, elem ls i oi with
          | Some a, Some b => Some (if ltb b a then i else out)
          | _, _ => None
          end
      | Some _ => Some i
      | None => None
      end
  | Some _ => Some out
  | None => None
  end.

Fixpoint get_next_from ls sts (out : nat) (is : list nat) : option nat :=
  match is with
  | [] => Some out
  | i :: r => match next_step ls sts out i with
              | Some o => get_next_from ls sts o r
              | None => None
              end
  end.

Definition get_next ls sts : option nat := get_next_from ls sts 0 (seq 0 (length sts)).

(* Some true = collision found (the Rust code panics) *)
Definition verify_one ls sts (index i : nat) : option bool :=
  if Nat.eqb i index then Some false else
  match nth_error sts i with
  | Some (Ongoing o) | Some (Finished o) =>
      match nth_error sts index with
      | Some (Ongoing inner) =>
          match elem ls i o, elem ls index inner with
          | Some a, Some b => Some (eqb a b)
          | _, _ => None
          end
      | Some _ => Some false
      | None => None
      end
  | Some Empty => Some false
  | None => None
  end.

Fixpoint verify_from ls sts index (is : list nat) : option bool :=
  match is with
  | [] => Some false
  | i :: r => match verify_one ls sts index i with
              | Some true => Some true
              | Some false => verify_from ls sts index r
              | None => None
              end
  end.

Definition verify ls sts index := verify_from ls sts index (seq 0 (length sts)).

Definition advance (ls : list (list A)) (sts : list st) (index : nat) : option (list st) :=
  match nth_error sts index, nth_error ls index with
  | Some (Ongoing wi), Some l =>
      Some (set_nth sts index (if Nat.eqb (length l) (wi + 1) then Finished wi else Ongoing (wi + 1)))
  | _, _ => None
  end.

Fixpoint run (fuel : nat) (ls : list (list A)) (sts : list st) : outcome :=
  match fuel with
  | 0 => Stuck
  | S f =>
      if should_end sts then Done else
      match get_next ls sts with
      | None => Stuck
      | Some index =>
          match verify ls sts index with
          | None => Stuck
          | Some true => Panic
          | Some false =>
              match advance ls sts index with
              | None => Stuck
              | Some sts' => run f ls sts'
              end
          end
      end
  end.

Definition assert_no_intersection (ls : list (list A)) : outcome :=
  run (S (length (concat ls))) ls (init_states ls).


End Merge.

(* Instance used by the macro-generated const block: `konst::cmp_str` / `konst::eq_str` on &str. *)
#[global] Instance string_ord : Ord String.string := {| ltb := String.ltb; eqb := String.eqb |}.

Definition show_outcome (o : outcome) : String.string :=
  (match o with Done => "done" | Panic => "panic" | Stuck => "stuck" end)%string.

Definition run_case (ls : list (list String.string)) : list String.string := [show_outcome (assert_no_intersection ls)].
