"""Behavioural message suite over a compiled corpus: encode / decode / wrapper / entry points,
with property oracles (C01-C05) and model comparison (Run.v)."""
import json
import re

from . import common, jsonx
from .jsonx import JObj
from .gen import gen_value, classify_name

KIND_COQ = {"exec": "KExec", "query": "KQuery", "sudo": "KSudo"}
EP = {"exec": "execute", "query": "query", "sudo": "sudo", "instantiate": "instantiate", "migrate": "migrate"}

HEADER = ("From Coq Require Import String List ZArith.\nImport ListNotations.\n"
          "Require Import SV.Base.Json SV.Model.Kinds SV.Model.Syntax SV.Model.Expand SV.Model.Sem SV.Model.Run.\n"
          "Open Scope string_scope.\n")


def wrapper_err_class(text):
    if "Wrong message format!" in text:
        return "wrong_format"
    m = re.search(r"Expected exactly one message\. Received (\d+)", text)
    if m:
        return "expected_one:" + m.group(1)
    m = re.search(r"Unsupported message received: .*\. Messages supported by this contract: (.*)$", text, flags=re.S)
    if m:
        return "unsupported:" + m.group(1).strip()
    return "part_error"


def part_err_class(text):
    m = re.search(r"unknown variant `([^`]*)`", text)
    if m:
        return "unknown_variant"
    m = re.search(r"missing field `([^`]*)`", text)
    if m:
        return "missing_field:" + m.group(1)
    m = re.search(r"duplicate field `([^`]*)`", text)
    if m:
        return "duplicate_field:" + m.group(1)
    return "other"


def model_part_class(lines):
    """model ['err', cls] -> coarse class comparable with part_err_class"""
    c = lines[1] if len(lines) > 1 else "?"
    if c in ("shape", "bad_field"):
        return "other"
    return c


class Case:
    __slots__ = ("prog", "part", "iface_idx", "method", "kind", "values", "doc_text", "doc", "wrapper_text")

    def __init__(self, **kw):
        for k in self.__slots__:
            setattr(self, k, kw.get(k))


class Suite:
    def __init__(self, run, corpus, rng, n_values=3, want_model=True):
        self.run = run
        self.corpus = corpus
        self.rng = rng
        self.n_values = n_values
        self.want_model = want_model
        self.cases = []
        self.wire_names = {}        # (prog, part, kind) -> names the part's messages serialise under
        self.model_err = None

    # ------------------------------------------------------------------ helpers
    def parts(self, p):
        return [("i%d" % k, k, it) for k, it in enumerate(p.ifaces)] + [("contract", len(p.ifaces), None)]

    def methods_of(self, p, iface):
        return p.methods if iface is None else iface.methods

    def header(self):
        lines = [HEADER]
        for pi, p in enumerate(self.corpus.progs):
            if "__rejected" in self.corpus.names[pi]:
                continue
            lines.append("Definition c_%d := %s." % (pi, p.to_contract(concrete=True).coq()))
            lines.append("Definition ifs_%d : list iface := %s." % (pi, common.coq_list([p.to_iface(i, concrete=True).coq() for i in p.ifaces])))
            for k, kc in KIND_COQ.items():
                lines.append("Definition parts_%d_%s := Eval vm_compute in parts_of c_%d ifs_%d %s." % (pi, k, pi, pi, kc))
                lines.append("Definition tables_%d_%s := Eval vm_compute in tables_of c_%d ifs_%d %s." % (pi, k, pi, pi, kc))
            lines.append("Definition inst_%d := Eval vm_compute in co_inst (expand_contract c_%d)." % (pi, pi))
            lines.append("Definition migr_%d := Eval vm_compute in co_migrate (expand_contract c_%d)." % (pi, pi))
        return "\n".join(lines) + "\n"

    def eval_model(self, exprs, tag):
        if not self.want_model or not exprs:
            return None
        try:
            ok, out, _ = common.coq_make(["theories/Model/Run.vo"])
            if not ok:
                raise common.BuildError("model build failed", out[-2000:])
            return common.coq_eval(self.header(), exprs, tag=tag, per_file=150)
        except common.BuildError as e:
            self.model_err = "%s %s" % (e.what, (e.output or "")[-1500:])
            self.run.translator_error("model evaluation failed: " + self.model_err)
            return None

    # ------------------------------------------------------------------ round 1: encode
    def round_encode(self, c01=True):
        run, rng = self.run, self.rng
        ops, metas, exprs, expr_idx = [], [], [], []
        for pi, p in enumerate(self.corpus.progs):
            if "__rejected" in self.corpus.names[pi]:
                continue
            for part, pidx, iface in self.parts(p):
                for m in self.methods_of(p, iface):
                    for _ in range(self.n_values):
                        vals = [gen_value(rng, p.concretize(a.ty, iface)) for a in m.args]
                        ops.append({"prog": pi, "op": "encode", "part": part, "method": m.name, "args": vals})
                        metas.append((pi, p, part, pidx, iface, m, vals))
                        tree_vals = [jsonx.from_py(v) for v in vals]
                        if all(jsonx.coq_safe(v) for v in tree_vals):
                            if m.kind in KIND_COQ:
                                exprs.append("run_encode parts_%d_%s %d %s %s" % (
                                    pi, m.kind, pidx, common.coq_string(m.name), common.coq_list([jsonx.to_coq(v) for v in tree_vals])))
                            else:
                                exprs.append("run_encode_struct %s_%d %s" % (
                                    "inst" if m.kind == "instantiate" else "migr", pi, common.coq_list([jsonx.to_coq(v) for v in tree_vals])))
                            expr_idx.append(len(ops) - 1)
        obs = self.corpus.run(ops)
        model = self.eval_model(exprs, "enc")
        model_by_op = {}
        if model is not None:
            for oi, ml in zip(expr_idx, model):
                model_by_op[oi] = ml
        for oi, (o, meta) in enumerate(zip(obs, metas)):
            pi, p, part, pidx, iface, m, vals = meta
            run.count()
            run.dist("encode:kind=%s" % m.kind)
            run.dist("encode:name_class=%s" % classify_name(m.name))
            run.dist("encode:nargs=%d" % len(m.args))
            case_desc = {"prog": pi, "program": self.describe(p), "part": part, "method": m.name, "kind": m.kind, "args": vals}
            if "json" not in o:
                run.oracle_fail("encoding a message failed: %s" % json.dumps(o)[:300], case_desc)
                continue
            doc = jsonx.parse(o["json"])
            run.nontriv(("enc", pi, part, m.name, json.dumps(vals, sort_keys=True)))
            if oi % 211 == 0:
                run.sample({"method": "%s %s(%s)" % (m.kind, m.name, ", ".join(a.rust() for a in m.args)), "args": vals, "json": o["json"]})
            # ---- C01 oracle: shape named by the signature
            renamed = any(a.sv and a.sv[0] == "attr" and "rename" in a.sv[1] for a in m.extra_attrs) or \
                any("rename" in x.toks for a in m.args for x in a.attrs)
            body_expected = JObj([(a.name, jsonx.from_py(v)) for a, v in zip(m.args, vals)])
            if c01 and not renamed:
                if m.kind in KIND_COQ:
                    if classify_name(m.name) == "nf":
                        expected = JObj([(m.name, body_expected)])
                        if doc != expected:
                            run.oracle_fail("message JSON differs from the shape named by the signature: got %s, expected %s" % (
                                o["json"], jsonx.to_text(expected)), case_desc)
                    else:
                        if not (isinstance(doc, JObj) and len(doc) == 1 and doc[0][1] == body_expected):
                            run.oracle_fail("message JSON is not a one-key object holding the arguments: %s" % o["json"], case_desc)
                else:
                    if doc != body_expected:
                        run.oracle_fail("%s message is not the flat object of its arguments: got %s expected %s" % (
                            m.kind, o["json"], jsonx.to_text(body_expected)), case_desc)
                if m.kind in KIND_COQ and o.get("wrapper_json") != o["json"]:
                    run.oracle_fail("contract-level message encodes differently from its part: %s vs %s" % (
                        o.get("wrapper_json"), o["json"]), case_desc, cls=None)
            if oi in model_by_op:
                ml = model_by_op[oi]
                if ml != [jsonx.show(doc)]:
                    run.disagree("encoded JSON", case_desc, ml, jsonx.show(doc))
            if m.kind in KIND_COQ and isinstance(doc, JObj) and len(doc) == 1:
                self.wire_names.setdefault((pi, part, m.kind), set()).add(doc[0][0])
            self.cases.append(Case(prog=pi, part=part, iface_idx=pidx, method=m, kind=m.kind, values=vals,
                                   doc_text=o["json"], doc=doc, wrapper_text=o.get("wrapper_json")))
        return len(ops)

    def describe(self, p):
        txt = p.to_contract().rust_impl()
        for i in p.ifaces:
            txt += "\n" + p.to_iface(i).rust_trait()
        return txt

    # ------------------------------------------------------------------ round 2: decode, wrapper, entry
    def malformed(self, case, p):
        """single-fault documents derived from a well-formed message"""
        rng = self.rng
        doc = case.doc
        out = []
        if not (isinstance(doc, JObj) and len(doc) == 1):
            return out
        name, body = doc[0]
        out.append(("unknown_name", JObj([(name + "_zz", body)])))
        out.append(("unknown_name2", JObj([("zz" + name, body)])))
        # names one edit away from the real one (another first / last letter of the same length, a proper prefix, another
        # case): whatever decides which part owns a name must tell them apart
        alt = lambda ch: "q" if ch != "q" else "w"
        if name:
            out.append(("near_name_first", JObj([(alt(name[0]) + name[1:], body)])))
            out.append(("near_name_last", JObj([(name[:-1] + alt(name[-1]), body)])))
            if len(name) > 1:
                out.append(("near_name_prefix", JObj([(name[:-1], body)])))
            if name.upper() != name:
                out.append(("near_name_case", JObj([(name[0].upper() + name[1:], body)])))
        # an unknown name in a document longer than any plausible buffer or quotation limit, in multi-byte characters at
        # every alignment (error texts that quote the document must not cut a character)
        pad = rng.randrange(3)
        out.append(("unknown_name_long", JObj([("x" * pad + "\u20ac" * rng.choice([90, 130, 400]) + name, body)])))
        out.append(("unknown_name_long_ascii", JObj([(name + "_" + "z" * rng.choice([250, 255, 256, 257, 1000]), body)])))
        out.append(("zero_keys", JObj([])))
        # the hidden generic-carrier variant must not be a message
        out.append(("phantom_name", JObj([("__phantom", None)])))
        out.append(("phantom_name2", JObj([("_phantom", [])])))
        # ... in none of the spellings serde knows for a variant: unit variant as a bare string, newtype / tuple forms
        out.append(("phantom_name3", "__phantom"))
        out.append(("phantom_name4", JObj([("__phantom", [])])))
        out.append(("phantom_name5", JObj([("__phantom", JObj([]))])))
        out.append(("two_keys", JObj([(name, body), ("other_msg", JObj([]))])))
        out.append(("not_object_str", name))
        out.append(("not_object_arr", [doc]))
        out.append(("not_object_null", None))
        out.append(("null_body", JObj([(name, None)])))
        out.append(("array_body", JObj([(name, [v for _, v in body] if isinstance(body, JObj) else [])])))
        out.append(("dup_top_key", JObj([(name, body), (name, body)])))
        if isinstance(body, JObj) and body:
            i = rng.randrange(len(body))
            k, v = body[i]
            out.append(("missing_field:" + k, JObj([(name, JObj([x for j, x in enumerate(body) if j != i]))])))
            out.append(("extra_field", JObj([(name, JObj(list(body) + [("zz_extra", 1)]))])))
            out.append(("dup_field", JObj([(name, JObj(list(body) + [(k, v)]))])))
            bad = "zz" if not isinstance(v, str) else 17
            out.append(("mistyped_field", JObj([(name, JObj([(kk, bad if j == i else vv) for j, (kk, vv) in enumerate(body)]))])))
            rev = JObj(list(reversed(body)))
            out.append(("reordered_fields", JObj([(name, rev)])))
        return out

    def round_decode(self, per_prog_docs=40, c02=True, c03=True, c04=True):
        run, rng = self.run, self.rng
        ops, metas, exprs, expr_meta = [], [], [], []
        by_prog = {}
        for c in self.cases:
            by_prog.setdefault(c.prog, []).append(c)
        for pi, cs in by_prog.items():
            p = self.corpus.progs[pi]
            enum_cases = [c for c in cs if c.kind in KIND_COQ]
            rng.shuffle(enum_cases)
            parts = self.parts(p)
            for c in enum_cases[:per_prog_docs]:
                docs = [("well_formed", c.doc)]
                if c03:
                    docs += self.malformed(c, p)
                else:
                    docs += [x for x in self.malformed(c, p) if x[0].startswith("phantom_name") or x[0] == "unknown_name"]
                for label, d in docs:
                    text = jsonx.to_text(d)
                    safe = jsonx.coq_safe(d)
                    # wrapper
                    ops.append({"prog": pi, "op": "decode_wrapper", "kind": c.kind, "json": text})
                    metas.append(("wrapper", c, label, d, None))
                    if safe:
                        exprs.append("run_decode_wrapper parts_%d_%s tables_%d_%s %s" % (pi, c.kind, pi, c.kind, jsonx.to_coq(d)))
                        expr_meta.append(len(ops) - 1)
                    # every part of the same kind
                    for part, pidx, iface in parts:
                        ops.append({"prog": pi, "op": "decode", "part": part, "kind": c.kind, "json": text})
                        metas.append(("part", c, label, d, (part, pidx)))
                        if safe:
                            exprs.append("run_decode_part parts_%d_%s %d %s" % (pi, c.kind, pidx, jsonx.to_coq(d)))
                            expr_meta.append(len(ops) - 1)
                # entry points
                if c02 or c04:
                    for k2 in ("exec", "query", "sudo"):
                        if k2 != c.kind and not c04:
                            continue
                        for via in ("entry", "dispatch", "mt"):
                            if k2 != c.kind and via == "dispatch":
                                continue
                            for fail in ((None, "std") if k2 == c.kind else (None,)):
                                op = {"prog": pi, "op": "call", "via": via, "ep": EP[k2], "json": c.doc_text,
                                      "sender": rng.choice(["alice", "bob", "cosmos1xyz"]),
                                      "funds": rng.choice([[], [{"denom": "uatom", "amount": "5"}],
                                                           [{"denom": "a", "amount": "1"}, {"denom": "b", "amount": "2"}]]),
                                      "height": rng.randint(1, 10 ** 6), "cell": rng.randint(0, 5), "fail": fail}
                                if p.error == "custom" and fail == "std" and rng.random() < 0.5:
                                    op["fail"] = "custom"
                                ops.append(op)
                                metas.append(("call", c, k2, op, via))
                                if via == "entry" and fail is None and jsonx.coq_safe(c.doc):
                                    exprs.append("run_entry parts_%d_%s tables_%d_%s %s" % (pi, k2, pi, k2, jsonx.to_coq(c.doc)))
                                    expr_meta.append(len(ops) - 1)
                    # part-level dispatch
                    if c02:
                        op = {"prog": pi, "op": "call", "via": "part:" + c.part, "ep": EP[c.kind], "json": c.doc_text,
                              "sender": "carol", "funds": [], "height": 77, "cell": 2, "fail": None}
                        ops.append(op)
                        metas.append(("call", c, c.kind, op, "part"))
            # struct messages: decode + entry
            for c in [x for x in cs if x.kind in ("instantiate", "migrate")][:6]:
                ops.append({"prog": pi, "op": "decode", "part": "contract", "kind": c.kind, "json": c.doc_text})
                metas.append(("struct", c, "well_formed", c.doc, None))
                if jsonx.coq_safe(c.doc):
                    exprs.append("run_decode_struct %s_%d %s" % ("inst" if c.kind == "instantiate" else "migr", pi, jsonx.to_coq(c.doc)))
                    expr_meta.append(len(ops) - 1)
                if c02:
                    for via in ("entry", "dispatch", "mt"):
                        for fail in (None, "std"):
                            op = {"prog": pi, "op": "call", "via": via, "ep": EP[c.kind], "json": c.doc_text, "sender": "dave",
                                  "funds": [{"denom": "x", "amount": "9"}], "height": 5, "cell": 1, "fail": fail}
                            ops.append(op)
                            metas.append(("call", c, c.kind, op, via))
        obs = self.corpus.run(ops)
        model = self.eval_model(exprs, "dec")
        model_by_op = {}
        if model is not None:
            for oi, ml in zip(expr_meta, model):
                model_by_op[oi] = ml
        # group wrapper + part observations per document
        i = 0
        n = len(ops)
        while i < n:
            kind = metas[i][0]
            if kind == "wrapper":
                _, c, label, d, _ = metas[i]
                p = self.corpus.progs[c.prog]
                nparts = len(self.parts(p))
                self.judge_document(c, p, label, d, obs[i], obs[i + 1:i + 1 + nparts], metas[i + 1:i + 1 + nparts],
                                    model_by_op.get(i), [model_by_op.get(j) for j in range(i + 1, i + 1 + nparts)])
                i += 1 + nparts
            elif kind == "call":
                self.judge_call(metas[i], obs[i], model_by_op.get(i))
                i += 1
            elif kind == "struct":
                self.judge_struct(metas[i], obs[i], model_by_op.get(i))
                i += 1
            else:
                i += 1
        return n

    # ------------------------------------------------------------------ judges
    def judge_document(self, c, p, label, d, wobs, pobs, pmetas, wmodel, pmodels):
        run = self.run
        run.count()
        full_label, label = label, label.split(":")[0]
        run.dist("doc:%s" % label)
        if label == "missing_field" and getattr(self, "c17", False):
            # C17: an attribute on the argument takes effect on the field: `default` (or an Option type) makes it optional
            fname = full_label.split(":", 1)[1]
            arg = [a for a in c.method.args if a.name == fname]
            if arg and not any("rename" in x.toks for x in arg[0].attrs):
                optional = any(x.path == ("serde",) and "default" in x.toks for x in arg[0].attrs) or \
                    (arg[0].ty.kind == "path" and arg[0].ty.segs[-1][0] == "Option")
                own = [o for o, meta in zip(pobs, pmetas) if meta[4][0] == c.part]
                if own:
                    acc = "ok" in own[0]
                    if acc != optional:
                        run.oracle_fail("document without field `%s` is %s by its message; the argument is %s" % (
                            fname, "accepted" if acc else "rejected", "optional (default / Option)" if optional else "mandatory"),
                            {"prog": c.prog, "program": self.describe(p), "document": jsonx.to_text(d), "field": fname})
        text = jsonx.to_text(d)
        desc = {"prog": c.prog, "program": self.describe(p), "kind": c.kind, "document": text, "derived_from": c.doc_text,
                "mutation": label}
        run.nontriv(("doc", c.prog, c.kind, text))
        accepting = []
        for o, meta in zip(pobs, pmetas):
            if "ok" in o:
                accepting.append((meta[4][0], o["ok"]))
        # C01: a part accepts one name per annotated method of its kind and no other
        if isinstance(d, JObj) and len(d) == 1 and not jsonx.has_dup_keys(d):
            for pname, _ in accepting:
                pidx = [x[0] for x in self.parts(p)].index(pname)
                iface = self.parts(p)[pidx][2]
                ms = [m for m in self.methods_of(p, iface) if m.kind == c.kind]
                if any(a.sv and a.sv[0] == "attr" and ("alias" in a.sv[1] or "rename" in a.sv[1]) for m in ms for a in m.extra_attrs):
                    continue
                names = self.wire_names.get((c.prog, pname, c.kind), set())
                if len(names) == len(ms) and d[0][0] not in names:
                    run.oracle_fail("part %s accepts the message name `%s`, which is the name of none of its %s methods (%s)" % (
                        pname, d[0][0], c.kind, sorted(names)), desc)
        if not isinstance(d, JObj):
            # a message is a one-key object: no bare string / array / null is a message of any part
            for pname, _ in accepting:
                run.oracle_fail("part %s accepts the document %s, which is not an object (a message is a JSON object with exactly "
                                "one key, the method's name)" % (pname, text[:80]), desc)
        dup = jsonx.has_dup_keys(d)
        cls = "document repeats a key" if dup else ("array in place of message body" if label == "array_body" else None)
        if wobs.get("panicked"):
            run.oracle_fail("decoding the contract-level message panicked", desc)
            return
        if "ok" in wobs:
            if len(accepting) != 1:
                run.oracle_fail("contract-level message accepts a document that %d of its parts accept (%s)" % (
                    len(accepting), [a for a, _ in accepting]), desc, cls=cls)
            else:
                part, pj = accepting[0]
                if wobs.get("part") != part:
                    run.oracle_fail("document routed to part %s but only part %s accepts it" % (wobs.get("part"), part), desc, cls=cls)
                if jsonx.parse(wobs["ok"]) != jsonx.parse(pj):
                    run.oracle_fail("contract-level message decodes to a different value than the part alone: %s vs %s" % (
                        wobs["ok"], pj), desc, cls=cls)
            if label == "well_formed":
                if wobs.get("part") != c.part:
                    run.oracle_fail("well-formed message of part %s decoded as part %s" % (c.part, wobs.get("part")), desc)
                if jsonx.parse(wobs["ok"]) != d:
                    run.oracle_fail("contract-level message does not encode back to the same JSON: %s" % wobs["ok"], desc)
        else:
            if len(accepting) == 1:
                run.oracle_fail("exactly one part (%s) accepts the document but the contract-level message rejects it: %s" % (
                    accepting[0][0], wobs.get("err", "")[:300]), desc, cls=cls)
            err = wobs.get("err", "")
            wc = wrapper_err_class(err)
            if label.startswith("unknown_name") and not wc.startswith("unsupported:"):
                run.oracle_fail("unknown message name is not reported as unsupported with the list of messages: %s" % err[:300], desc)
            elif label.startswith("near_name") and isinstance(d, JObj) and len(d) == 1 and not wc.startswith("unsupported:"):
                # a name that no part of this kind lists (compared with the published tables of all parts) is unknown too
                known, complete = set(), True
                for pname, _, iface in self.parts(p):
                    ms = [m for m in self.methods_of(p, iface) if m.kind == c.kind]
                    names = self.wire_names.get((c.prog, pname, c.kind), set())
                    complete = complete and len(names) == len(ms) and not any(
                        a.sv and a.sv[0] == "attr" and ("alias" in a.sv[1] or "rename" in a.sv[1]) for m in ms for a in m.extra_attrs)
                    known |= set(names)
                if complete and d[0][0] not in known:
                    run.oracle_fail("the name `%s` is a message of no part (%s) but is not reported as unsupported with the list of "
                                    "messages: %s" % (d[0][0], sorted(known), err[:300]), desc)
        if label == "well_formed" and len(accepting) != 1:
            run.oracle_fail("a well-formed message is accepted by %d parts" % len(accepting), desc)
        # model comparison
        if wmodel is not None:
            if "ok" in wobs:
                impl = ["ok", wobs.get("part"), jsonx.show(jsonx.parse(wobs["ok"]))]
                parts = self.parts(p)
                mod = wmodel
                mod_c = [mod[0], parts[int(mod[1])][0] if mod[0] == "ok" and mod[1].isdigit() and int(mod[1]) < len(parts) else "?", mod[3] if len(mod) > 3 else ""]
                if mod[0] != "ok" or mod_c != impl:
                    run.disagree("wrapper decode", desc, wmodel, impl)
            else:
                wc = wrapper_err_class(wobs.get("err", ""))
                mc = wmodel[1] if len(wmodel) > 1 else "?"
                if wmodel[0] != "err" or (mc != wc and not (mc == "part_error" and wc == "part_error")):
                    run.disagree("wrapper decode", desc, wmodel, ["err", wc])
        for o, meta, pm in zip(pobs, pmetas, pmodels):
            if pm is None:
                continue
            if "ok" in o:
                impl = ["ok", jsonx.show(jsonx.parse(o["ok"]))]
                if pm[0] != "ok" or [pm[0], pm[2]] != impl:
                    run.disagree("part decode", dict(desc, part=meta[4][0]), pm, impl)
            else:
                ic = part_err_class(o.get("err", ""))
                precise = label in ("well_formed", "unknown_name", "unknown_name2", "missing_field", "extra_field",
                                    "reordered_fields", "mistyped_field", "dup_field") and meta[4][0] == c.part
                if pm[0] != "err" or (precise and model_part_class(pm) != ic):
                    run.disagree("part decode", dict(desc, part=meta[4][0]), pm, ["err", ic, o.get("err", "")[:200]])

    def judge_struct(self, meta, o, pm):
        run = self.run
        _, c, label, d, _ = meta
        run.count()
        p = self.corpus.progs[c.prog]
        desc = {"prog": c.prog, "program": self.describe(p), "kind": c.kind, "document": c.doc_text}
        if "ok" not in o:
            run.oracle_fail("%s message does not parse back from its own JSON: %s" % (c.kind, o.get("err", "")[:300]), desc)
        elif jsonx.parse(o["ok"]) != d:
            run.oracle_fail("%s message round trip changed the value: %s" % (c.kind, o["ok"]), desc)
        if pm is not None and "ok" in o:
            if pm[0] != "ok" or pm[2] != jsonx.show(jsonx.parse(o["ok"])):
                run.disagree("struct decode", desc, pm, o)

    def expected_handler(self, p, k2, doc):
        """The handler the property allows for document `doc` at the entry point of kind k2, if any."""
        if not (isinstance(doc, JObj) and len(doc) == 1):
            return None
        return None

    def judge_call(self, meta, o, pm):
        run = self.run
        _, c, k2, op, via = meta
        p = self.corpus.progs[c.prog]
        run.count()
        run.dist("call:%s:%s" % (via if not via.startswith("part") else "part", "own" if k2 == c.kind else "cross"))
        desc = {"prog": c.prog, "program": self.describe(p), "sent_to": op["ep"], "via": op["via"], "message_of": c.kind,
                "method": c.method.name, "json": c.doc_text, "op": {k: v for k, v in op.items() if k not in ("prog",)}}
        run.nontriv(("call", c.prog, op["via"], op["ep"], c.doc_text, op.get("fail")))
        if o.get("panicked"):
            run.oracle_fail("call panicked: %s" % o.get("msg", ""), desc)
            return
        res = o.get("res", {})
        storage = o.get("storage", {})
        log = storage.get("log", [])
        all_methods = {}
        for part, pidx, iface in self.parts(p):
            for m in self.methods_of(p, iface):
                all_methods[m.name] = m.kind
        if k2 != c.kind:
            # C04: a K1 message at the K2 entry point may only run K2 handlers
            for h in log:
                if all_methods.get(h) != k2:
                    run.oracle_fail("a %s message sent to the %s entry point ran handler `%s` of kind %s" % (
                        c.kind, op["ep"], h, all_methods.get(h)), desc)
            if "ok" in res:
                attrs = res["ok"].get("attrs", {}) if isinstance(res["ok"], dict) else {}
                h = attrs.get("handler") or (res["ok"].get("query_json", {}) or {}).get("handler") if isinstance(res["ok"], dict) else None
                if h is not None and all_methods.get(h) != k2:
                    run.oracle_fail("a %s message sent to the %s entry point was answered by handler `%s` of kind %s" % (
                        c.kind, op["ep"], h, all_methods.get(h)), desc)
            if pm is not None:
                impl = "called" if log or ("ok" in res) else "decode_err"
                if (pm[0] == "called") != (impl == "called"):
                    run.disagree("entry point reach", desc, pm, [impl, log])
            return
        # C02: own kind
        m = c.method
        fail = op.get("fail")
        expected_args = [json.dumps(v, separators=(",", ":"), ensure_ascii=False) for v in c.values]
        if fail is None:
            if "ok" not in res:
                run.oracle_fail("dispatching a well-formed message failed: %s" % json.dumps(res)[:400], desc)
                return
            ok = res["ok"]
            if m.kind == "query":
                q = ok.get("query_json")
                if m.ret == "arg0":
                    if q != c.values[0]:
                        run.oracle_fail("query returned %s, handler returned its first argument %s" % (json.dumps(q), json.dumps(c.values[0])), desc)
                else:
                    if not isinstance(q, dict) or q.get("handler") != m.name:
                        run.oracle_fail("query answered by `%s`, expected `%s`" % ((q or {}).get("handler") if isinstance(q, dict) else q, m.name), desc)
                        return
                    got_args = [json.loads(a) for a in q.get("args", [])]
                    if got_args != c.values:
                        run.oracle_fail("handler `%s` received arguments %s, sent %s" % (m.name, json.dumps(got_args), json.dumps(c.values)), desc)
                    if q.get("height") != op["height"]:
                        run.oracle_fail("query handler saw block height %s, caller gave %s" % (q.get("height"), op["height"]), desc)
                    if q.get("calls_seen") != op["cell"]:
                        run.oracle_fail("query handler did not see the caller's storage (cell %s vs %s)" % (q.get("calls_seen"), op["cell"]), desc)
            else:
                a = ok.get("attrs", {})
                if a.get("handler") != m.name:
                    run.oracle_fail("message for `%s` ran handler `%s`" % (m.name, a.get("handler")), desc)
                    return
                got_args = [json.loads(x) for x in json.loads(a.get("args", "[]"))]
                if got_args != c.values:
                    run.oracle_fail("handler `%s` received arguments %s, sent %s" % (m.name, json.dumps(got_args), json.dumps(c.values)), desc)
                if a.get("height") != str(op["height"]):
                    run.oracle_fail("handler saw block height %s, caller gave %s" % (a.get("height"), op["height"]), desc)
                if m.kind in ("exec", "instantiate"):
                    if a.get("sender") != op["sender"]:
                        run.oracle_fail("handler saw sender %s, caller gave %s" % (a.get("sender"), op["sender"]), desc)
                    if json.loads(a.get("funds", "[]")) != op["funds"]:
                        run.oracle_fail("handler saw funds %s, caller gave %s" % (a.get("funds"), op["funds"]), desc)
                if a.get("cell_seen") != str(op["cell"]):
                    run.oracle_fail("handler did not see the caller's storage (cell_seen %s vs %s)" % (a.get("cell_seen"), op["cell"]), desc)
                if storage.get("cell") != op["cell"] + 1:
                    run.oracle_fail("handler's write did not reach the caller's storage (cell %s, expected %s)" % (storage.get("cell"), op["cell"] + 1), desc)
                if log != [m.name]:
                    run.oracle_fail("handlers run: %s, expected exactly [%s]" % (log, m.name), desc)
                if a.get("api_ok") != "true":
                    run.oracle_fail("handler's api handle does not work", desc)
        else:
            if m.kind == "query" and m.ret == "arg0":
                return
            if "err" not in res:
                run.oracle_fail("handler failed but the caller got: %s" % json.dumps(res)[:300], desc)
                return
            want = "handler %s failed" % m.name if fail == "std" else "custom failure in %s" % m.name
            if want not in res["err"]:
                run.oracle_fail("caller got error `%s`, handler returned `%s`" % (res["err"][:200], want), desc)
            if m.kind != "query" and fail == "std" and log != [m.name]:
                run.oracle_fail("handlers run before the failure: %s, expected [%s]" % (log, m.name), desc)
        if pm is not None and fail is None:
            exp = ["called", m.name, jsonx.show(jsonx.from_py(c.values))]
            if pm != exp:
                run.disagree("entry point call", desc, pm, exp)

    # ------------------------------------------------------------------ tables (C05 part B)
    def check_tables(self):
        run = self.run
        ops = [{"prog": pi, "op": "tables"} for pi, p in enumerate(self.corpus.progs) if "__rejected" not in self.corpus.names[pi]]
        obs = self.corpus.run(ops)
        keys = {}
        for c in self.cases:
            if c.kind in KIND_COQ and isinstance(c.doc, JObj) and len(c.doc) == 1:
                keys.setdefault((c.prog, c.part, c.kind), set()).add(c.doc[0][0])
        for op, o in zip(ops, obs):
            pi = op["prog"]
            p = self.corpus.progs[pi]
            for part, pidx, iface in self.parts(p):
                for kind in ("exec", "query", "sudo"):
                    table = o.get(part, {}).get(EP[kind])
                    ms = [m for m in self.methods_of(p, iface) if m.kind == kind]
                    ser = keys.get((pi, part, kind), set())
                    run.count()
                    desc = {"prog": pi, "program": self.describe(p), "part": part, "kind": kind, "published": table,
                            "serialised_names": sorted(ser)}
                    if table is None:
                        run.oracle_fail("part publishes no %s name list" % kind, desc)
                        continue
                    run.nontriv(("table", pi, part, kind, tuple(table)))
                    if table != sorted(table, key=lambda s: s.encode()):
                        run.oracle_fail("published name list is not sorted: %s" % table, desc)
                    if len(ser) == len(ms) and set(table) != ser:
                        run.oracle_fail("published names %s differ from the names the messages serialise under %s" % (table, sorted(ser)), desc)
                    if len(table) != len(set(table)):
                        run.oracle_fail("published name list has duplicates: %s" % table, desc)
        return len(ops)


    # ------------------------------------------------------------------ query response tables (C16)
    def check_schemas(self):
        run = self.run
        ops = [{"prog": pi, "op": "schemas"} for pi, p in enumerate(self.corpus.progs) if "__rejected" not in self.corpus.names[pi]]
        obs = self.corpus.run(ops)
        for op, o in zip(ops, obs):
            pi = op["prog"]
            p = self.corpus.progs[pi]
            desc = {"prog": pi, "program": self.describe(p)}
            union = {}
            titles = []
            for part, pidx, iface in self.parts(p):
                run.count()
                run.nontriv(("schemas", pi, part))
                tab = o.get(part, {})
                if not isinstance(tab, dict) or "Ok" not in tab:
                    run.oracle_fail("response table of part %s cannot be produced: %s" % (part, json.dumps(tab)[:200]), desc)
                    continue
                tab = tab["Ok"]
                declared = dict((n, sch) for n, sch in o.get(part + ".declared", []))
                keys = set(k for k in tab.keys() if k != "__phantom")
                ser = self.wire_names.get((pi, part, "query"), set())
                qs = [m for m in self.methods_of(p, iface) if m.kind == "query"]
                if len(ser) == len(qs) and keys != ser:
                    run.oracle_fail("response table of part %s has the names %s; its queries are sent as %s" % (part, sorted(keys), sorted(ser)), desc)
                for m in qs:
                    wire = [k for k in tab if k.replace("_", "") == m.name.replace("_", "").lower()]
                    if m.name in tab and m.name in declared and json.dumps(tab[m.name], sort_keys=True) != json.dumps(declared[m.name], sort_keys=True):
                        run.oracle_fail("query `%s` is recorded with the schema of another type: %s vs the handler's %s" % (
                            m.name, json.dumps(tab[m.name].get("title")), json.dumps(declared[m.name].get("title"))), desc)
                for k, v in tab.items():
                    if k != "__phantom":
                        union[k] = v
                titles.append((o.get(part + ".schema") or {}).get("title"))
            w = o.get("wrapper", {})
            if "Ok" not in w:
                run.oracle_fail("the contract-level response table cannot be produced: %s" % json.dumps(w)[:200], desc)
            else:
                wt = dict((k, v) for k, v in w["Ok"].items() if k != "__phantom")
                if json.dumps(wt, sort_keys=True) != json.dumps(union, sort_keys=True):
                    run.oracle_fail("the contract-level response table is not the union of its parts' tables: %s vs %s" % (
                        sorted(wt.keys()), sorted(union.keys())), desc)
            ws = o.get("wrapper_schema", {})
            any_of = ws.get("anyOf")
            if not isinstance(any_of, list) or len(any_of) != len(self.parts(p)):
                run.oracle_fail("the contract-level query schema is not an anyOf over its %d parts: %s" % (len(self.parts(p)), json.dumps(ws)[:200]), desc)
            else:
                refs = [x.get("$ref", "").split("/")[-1] for x in any_of]
                if sorted(refs) != sorted(t for t in titles if t):
                    # generic parts get a name with their arguments; compare as sets of referenced definitions otherwise
                    if len(set(refs)) != len(refs):
                        run.oracle_fail("the contract-level query schema lists a part twice: %s" % refs, desc)
        return len(ops)
