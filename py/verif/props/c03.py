"""C03 - the contract-level message accepts exactly the union of its parts and routes right."""
from . import msgprops

THEOREMS = ["c03_accepts_iff_exactly_one_part", "c03_every_other_document_is_an_error", "c03_encodes_like_part",
            "c03_routes_to_owning_part", "c03_tables_are_wire_names", "c03_repeated_key_refuted"]


def check(run, replay=None):
    run.rule = ("L2: every well-formed message of every part and 15 single-fault documents derived from it, decoded by the "
                "contract-level type and by every part alone (from_json), error class and listed names compared with the model; "
                "L1: wrapper variants, consulted name lists; non-trivial = distinct (program, kind, document)")
    return msgprops.check(run, "C03", "Props/C03", THEOREMS, {"c03": True, "c02": True, "tables": True}, replay,
                          translated=("Props/C03T", ["c03_translated_deserialization_attempts", "c03_translated_glue_variants_and_types", "c03_translated_contract_level_message"]))
