"""C19 - generated code is hygienic about crate name and user type-parameter names."""
import json
import random
import string

from .. import common, translate, rustc_batch, replies
from ..prog import P
from ..replies import RMethod, RProg

THEOREMS = ["c19_no_literal_framework_path", "c19_helper_parameters_are_unconventional", "c19_single_letters_are_free"]

WORDS = ["Msg", "Query", "Param", "Item", "Exec", "State", "Custom", "App", "Config", "Token", "Key", "Value"]

PRE = ("#![allow(unused_imports, unused_variables, dead_code, non_snake_case, non_camel_case_types)]\n"
       "use fw::cw_std::{Response, StdError, StdResult, Binary, SubMsgResult, Empty, CustomMsg, CustomQuery};\n"
       "use fw::ctx::{ExecCtx, InstantiateCtx, QueryCtx, SudoCtx, ReplyCtx, MigrateCtx};\n")


def generic_contract(name):
    """a generic contract and an interface whose type parameter / associated type is called `name`; every helper family is generated"""
    n = name
    return PRE + """
pub trait Data: serde::Serialize + serde::de::DeserializeOwned + Clone + std::fmt::Debug + PartialEq + schemars::JsonSchema + 'static {}
impl<T> Data for T where T: serde::Serialize + serde::de::DeserializeOwned + Clone + std::fmt::Debug + PartialEq + schemars::JsonSchema + 'static {}
pub mod iface {
    use super::*;
    #[fw::interface]
    #[sv::custom(msg=Empty, query=Empty)]
    pub trait Iface {
        type Error: From<StdError>;
        type %(n)s: Data;
        #[sv::msg(exec)] fn put(&self, ctx: ExecCtx, v: Self::%(n)s) -> Result<Response, Self::Error>;
        #[sv::msg(query)] fn peek(&self, ctx: QueryCtx, v: Self::%(n)s) -> Result<u32, Self::Error>;
        #[sv::msg(sudo)] fn tick(&self, ctx: SudoCtx, v: Self::%(n)s) -> Result<Response, Self::Error>;
    }
}
pub struct Ctr<%(n)s>(std::marker::PhantomData<%(n)s>);
#[fw::entry_points(generics<u32>)]
#[fw::contract]
#[sv::messages(iface as AliasIface)]
#[sv::features(replies)]
impl<%(n)s> Ctr<%(n)s> where %(n)s: Data {
    pub const fn new() -> Self { Self(std::marker::PhantomData) }
    #[sv::msg(instantiate)] pub fn instantiate(&self, ctx: InstantiateCtx, v: %(n)s) -> StdResult<Response> { Ok(Response::new()) }
    #[sv::msg(exec)] pub fn go(&self, ctx: ExecCtx, v: %(n)s) -> StdResult<Response> { Ok(Response::new()) }
    #[sv::msg(query)] pub fn ask(&self, ctx: QueryCtx, v: Vec<%(n)s>) -> StdResult<%(n)s> { Err(StdError::generic_err("x")) }
    #[sv::msg(sudo)] pub fn su(&self, ctx: SudoCtx, v: Option<%(n)s>) -> StdResult<Response> { Ok(Response::new()) }
    #[sv::msg(migrate)] pub fn mig(&self, ctx: MigrateCtx, v: %(n)s) -> StdResult<Response> { Ok(Response::new()) }
    #[sv::msg(reply, reply_on=success)] fn on_ok(&self, ctx: ReplyCtx, #[sv::data(opt)] d: Option<u32>, p: u32) -> StdResult<Response> { Ok(Response::new()) }
}
impl<%(n)s: Data> iface::Iface for Ctr<%(n)s> {
    type Error = StdError;
    type %(n)s = u32;
    fn put(&self, ctx: ExecCtx, v: u32) -> StdResult<Response> { Ok(Response::new()) }
    fn peek(&self, ctx: QueryCtx, v: u32) -> StdResult<u32> { Ok(v) }
    fn tick(&self, ctx: SudoCtx, v: u32) -> StdResult<Response> { Ok(Response::new()) }
}
fn main() {
    // named, built, encoded with just the parameter supplied
    let m = sv::ExecMsg::<String>::go("x".to_string());
    let j = fw::cw_std::to_json_string(&m).unwrap();
    assert_eq!(j, "{\\"go\\":{\\"v\\":\\"x\\"}}");
    print!("{}", j);
}
""" % {"n": n}


def branch_programs():
    """programs covering code-generation branches that name re-exported dependencies (under the renamed dependency `fw`)"""
    out = {}
    inst = "    pub const fn new() -> Self { Self }\n    #[sv::msg(instantiate)] pub fn instantiate(&self, ctx: InstantiateCtx) -> StdResult<Response> { Ok(Response::new()) }\n"
    # reply data modes / partial coverage / raw payloads
    bodies = {
        "reply_success_only": "#[sv::msg(reply, reply_on=success)] fn a(&self, ctx: ReplyCtx, p: u32) -> StdResult<Response> { Ok(Response::new()) }",
        "reply_error_only": "#[sv::msg(reply, reply_on=error)] fn a(&self, ctx: ReplyCtx, e: String, p: u32) -> StdResult<Response> { Ok(Response::new()) }",
        "reply_always_raw": "#[sv::msg(reply)] fn a(&self, ctx: ReplyCtx, r: SubMsgResult, #[sv::payload(raw)] p: Binary) -> StdResult<Response> { Ok(Response::new()) }",
        "reply_data_typed": "#[sv::msg(reply, reply_on=success)] fn a(&self, ctx: ReplyCtx, #[sv::data] d: u32, p: u32) -> StdResult<Response> { Ok(Response::new()) }",
        "reply_data_raw": "#[sv::msg(reply, reply_on=success)] fn a(&self, ctx: ReplyCtx, #[sv::data(raw)] d: Binary, p: u32) -> StdResult<Response> { Ok(Response::new()) }",
        "reply_data_raw_opt": "#[sv::msg(reply, reply_on=success)] fn a(&self, ctx: ReplyCtx, #[sv::data(raw, opt)] d: Option<Binary>, p: u32) -> StdResult<Response> { Ok(Response::new()) }",
        "reply_data_inst": "#[sv::msg(reply, reply_on=success)] fn a(&self, ctx: ReplyCtx, #[sv::data(instantiate)] d: fw::cw_utils::MsgInstantiateContractResponse, p: u32) -> StdResult<Response> { Ok(Response::new()) }",
        "reply_data_inst_opt": "#[sv::msg(reply, reply_on=success)] fn a(&self, ctx: ReplyCtx, #[sv::data(instantiate, opt)] d: Option<fw::cw_utils::MsgInstantiateContractResponse>, p: u32) -> StdResult<Response> { Ok(Response::new()) }",
    }
    for k, b in bodies.items():
        out[k] = PRE + "pub struct Ctr;\n#[fw::entry_points]\n#[fw::contract]\n#[sv::features(replies)]\nimpl Ctr {\n" + inst + "    " + b + "\n}\nfn main() {}\n"
    out["legacy_reply"] = PRE + "use fw::cw_std::Reply;\npub struct Ctr;\n#[fw::entry_points]\n#[fw::contract]\nimpl Ctr {\n" + inst + \
        "    #[allow(deprecated)] #[sv::msg(reply)] fn reply(&self, ctx: fw::types::ReplyCtx, r: Reply) -> StdResult<Response> { Ok(Response::new()) }\n}\nfn main() {}\n"
    out["custom_types"] = PRE + """
#[derive(serde::Serialize, serde::Deserialize, Clone, Debug, PartialEq, schemars::JsonSchema)] pub struct MyMsg {}
impl CustomMsg for MyMsg {}
#[derive(serde::Serialize, serde::Deserialize, Clone, Debug, PartialEq, schemars::JsonSchema)] pub struct MyQuery {}
impl CustomQuery for MyQuery {}
pub mod iface {
    use super::*;
    #[fw::interface]
    #[sv::custom(msg=Empty, query=Empty)]
    pub trait Plain { type Error: From<StdError>; #[sv::msg(exec)] fn poke(&self, ctx: ExecCtx) -> Result<Response, Self::Error>;
                      #[sv::msg(query)] fn peek(&self, ctx: QueryCtx) -> Result<u32, Self::Error>; #[sv::msg(sudo)] fn tick(&self, ctx: SudoCtx) -> Result<Response, Self::Error>; }
}
pub struct Ctr;
#[fw::entry_points]
#[fw::contract]
#[sv::custom(msg=MyMsg, query=MyQuery)]
#[sv::messages(iface as AliasPlain: custom(msg, query))]
impl Ctr {
    pub const fn new() -> Self { Self }
    #[sv::msg(instantiate)] pub fn instantiate(&self, ctx: InstantiateCtx<MyQuery>) -> StdResult<Response<MyMsg>> { Ok(Response::new()) }
    #[sv::msg(exec)] pub fn go(&self, ctx: ExecCtx<MyQuery>) -> StdResult<Response<MyMsg>> { Ok(Response::new()) }
    #[sv::msg(query)] pub fn ask(&self, ctx: QueryCtx<MyQuery>) -> StdResult<u32> { Ok(1) }
}
impl iface::Plain for Ctr { type Error = StdError;
    fn poke(&self, ctx: ExecCtx) -> StdResult<Response> { Ok(Response::new()) }
    fn peek(&self, ctx: QueryCtx) -> StdResult<u32> { Ok(1) }
    fn tick(&self, ctx: SudoCtx) -> StdResult<Response> { Ok(Response::new()) } }
fn main() {}
"""
    out["overrides"] = PRE + """
pub struct Ctr;
#[derive(serde::Serialize, serde::Deserialize, Clone, Debug, PartialEq, schemars::JsonSchema)] pub struct CustomSudo {}
pub fn my_sudo(deps: fw::cw_std::DepsMut, env: fw::cw_std::Env, msg: CustomSudo) -> StdResult<Response> { Ok(Response::new()) }
#[fw::entry_points]
#[fw::contract]
#[sv::override_entry_point(sudo=crate::my_sudo(crate::CustomSudo))]
impl Ctr {
    pub const fn new() -> Self { Self }
    #[sv::msg(instantiate)] pub fn instantiate(&self, ctx: InstantiateCtx) -> StdResult<Response> { Ok(Response::new()) }
    #[sv::msg(exec)] pub fn go(&self, ctx: ExecCtx) -> StdResult<Response> { Ok(Response::new()) }
}
fn main() {}
"""
    return out


def check(run, replay=None):
    if replay:
        data = json.load(open(replay))
        run.seed, run.tier = data.get("seed", run.seed), data.get("tier", run.tier)
    rng = random.Random(run.seed)
    thorough = run.tier == "thorough"
    run.rule = ("every quote!/parse_quote! template of sylvia-derive/src (regenerated token lists) checked in Coq for literal framework "
                "paths and conventional helper type parameters; real compilation, with the framework imported only as `fw`, of programs "
                "covering the generation branches (all kinds, replies with partial coverage and every data mode, legacy reply, custom "
                "chain types with bridged interface, overridden entry point, multitest helpers, entry points) and of a generic contract + "
                "interface whose parameter is named by each single letter / conventional word (quick: a rotating third, thorough: all); "
                "non-trivial = distinct program")
    translate.regen_tables(run)
    try:
        ttext, n = translate.generate_templates()
        translate.write_gentemplates(ttext)
        run.dist("templates", n)
    except translate.TranslateError as e:
        run.translator_error("templates: " + str(e))
    run.hygiene()
    run.prove("Props/C19", THEOREMS)
    names = list(string.ascii_uppercase) + WORDS
    if not thorough:
        k = run.seed % 3
        names = [n for i, n in enumerate(names) if i % 3 == k] + ["C", "D", "A", "S", "T", "Msg", "Query", "Param"]
        names = sorted(set(names), key=lambda x: (len(x), x))
    files = {}
    for n in names:
        files["gen_%s" % n.lower().strip("_") + ("_w" if len(n) > 1 else "")] = generic_contract(n.strip("_") if n != "Self_" else "Own")
    files.update(branch_programs())
    d = rustc_batch.CARGO_TOML
    res = compile_renamed(files)
    for name, errs in res.items():
        run.count()
        run.nontriv(("c19", name))
        run.dist("compiled:%s" % ("ok" if not errs else "error"))
        desc = {"level": "rustc", "case": name, "program": files[name]}
        if errs:
            e = errs[0]
            kind = "E0403" if e.get("code") == "E0403" else e.get("code")
            run.oracle_fail("a valid program importing the framework as `fw` does not compile (%s): %s" % (kind, e["message"][:200]), desc)
    run.programs = len(files)
    if replay:
        print("replayed seed=%s tier=%s: %d oracle failure(s)" % (run.seed, run.tier, len(run.oracle_failures)))
        return 1 if run.oracle_failures else 0


def compile_renamed(files):
    """like rustc_batch.compile_batch, with the framework renamed to `fw` and no direct dependency on its re-exports"""
    old = rustc_batch.DEP_RENAMED
    try:
        rustc_batch.DEP_RENAMED = 'fw = { package = "sylvia", path = "/repo/sylvia", features = ["mt", "stargate", "iterator", "cosmwasm_2_0"] }'
        return rustc_batch.compile_batch(files, tag="c19", renamed=True)
    finally:
        rustc_batch.DEP_RENAMED = old
