"""Shared driver of the message-level properties C01-C05: proofs, L1 structural correspondence on
generated contracts/interfaces, L2 behavioural suite on a compiled corpus (l2msg.Suite)."""
import json
import random
import re

from .. import common, translate, l1, gen, corpus, l2msg
from ..prog import Contract, Interface, Method

# which canonical expansion lines are compared for which property
L1_LINES = {
    "C01": re.compile(r"^(status|enum \S+ (variants|ctors|phantom_attrs)|variant \S+ fields|struct \S+ fields)"),
    "C02": re.compile(r"^(status|arm |struct \S+ call)"),
    "C03": re.compile(r"^(status|wrapper |enum \S+ table)"),
    "C04": re.compile(r"^(status|wrapper \S+ (variants|tables)|enum \S+ variants)"),
    "C05": re.compile(r"^(status|enum \S+ table|wrapper \S+ tables)"),
    "C11": re.compile(r"^(status|wrapper \S+ (bridged|variants))"),
    "C16": re.compile(r"^(status|wrapper \S+ (schema|responses|tables)|variant \S+ attrs|enum \S+ variants)"),
    "C15": re.compile(r"^(status|(enum|struct) \S+ (generics|impl_where|dispatch_generics|type_where))"),
    "C17": re.compile(r"^(status|(enum|struct) \S+ attrs|variant \S+ (attrs|fields)|struct \S+ fields)"),
}


def preamble(run, module, theorems):
    translate.regen_tables(run)
    run.hygiene()
    run.prove(module, theorems)


def l1_oracle(pid, p, impl_lines, run, desc):
    """Model-independent statements on the real expansion of an accepted program."""
    d = {}
    for l in impl_lines:
        k, _, v = l.partition("=")
        d[k] = v
    if d.get("status") != "accepted":
        return
    is_c = isinstance(p, Contract)
    prefix = "" if is_c else p.name
    for kind, base in (("exec", "ExecMsg"), ("query", "QueryMsg"), ("sudo", "SudoMsg")):
        en = prefix + base
        ms = [m for m in p.methods() if m.kind() == kind]
        variants = [v for v in d.get("enum %s variants" % en, "").split(",") if v and v != "_Phantom"]
        if pid in ("C01", "C04"):
            if len(variants) != len(ms):
                run.oracle_fail("%s has %d variants for %d %s handlers" % (en, len(variants), len(ms), kind), desc)
                continue
        for m, v in zip(ms, variants):
            if pid == "C01":
                want = ";".join("%s:%s[%s]" % (a.name, canon_ty(a.ty.rust()), "|".join("".join(x.rust().split()) for x in a.attrs))
                                for a in m.args)
                got = d.get("variant %s::%s fields" % (en, v))
                if got is not None and strip_self_txt(want) != got:
                    run.oracle_fail("variant %s::%s has fields `%s`, the signature of `%s` names `%s`" % (en, v, got, m.name, want), desc)
            if pid == "C02":
                got = d.get("arm %s::%s" % (en, v))
                want = "%s:%s:%s" % (m.name, ",".join(a.name for a in m.args), "to_json_binary+map_err" if kind == "query" else "map_err")
                # (an arm whose spelling the canonicaliser does not recognise is not evidence of a violation: it is reported
                #  as a disagreement with the model; what such an arm does is observed by the compiled corpus)
                if got is not None and got != want and not got.startswith(("?::unparsed", "<noarm>")):
                    run.oracle_fail("dispatch arm of %s::%s is `%s`, expected `%s`" % (en, v, got, want), desc)
    if pid == "C02" and is_c:
        for kind, sn in (("instantiate", "InstantiateMsg"), ("migrate", "MigrateMsg")):
            ms = [m for m in p.methods() if m.kind() == kind]
            got = d.get("struct %s call" % sn)
            if len(ms) == 1 and got is not None:
                want = "%s:%s" % (ms[0].name, ",".join(a.name for a in ms[0].args))
                if got != want:
                    run.oracle_fail("%s dispatches as `%s`, expected `%s`" % (sn, got, want), desc)
    if pid == "C16":
        en = prefix + "QueryMsg"
        ms = [m for m in p.methods() if m.kind() == "query"]
        variants = [v for v in d.get("enum %s variants" % en, "").split(",") if v and v != "_Phantom"]
        for m, v in zip(ms, variants):
            ma = m.msg_attr()
            if ma[2] is not None:
                want = ma[2]
            elif m.ret.kind == "path" and m.ret.segs[0][1]:
                want = canon_ty(strip_self_ty(m.ret.segs[0][1][0]).rust())
            else:
                continue
            got = [x for x in d.get("variant %s::%s attrs" % (en, v), "").split(";;") if x.startswith("returns(")]
            if got != ["returns(%s)" % want]:
                run.oracle_fail("query `%s` is recorded with %s; its handler returns `%s`" % (m.name, got, want), desc)
        if is_c:
            mods = []
            for a in p.attrs:
                if a.sv and a.sv[0] == "messages":
                    mods.append("::".join(a.sv[1]))
            want = ",".join(mods + ["self"])
            if d.get("wrapper ContractQueryMsg responses") != "flatten:" + want:
                run.oracle_fail("the contract-level response table is assembled as `%s`; expected the union of the parts %s" % (
                    d.get("wrapper ContractQueryMsg responses"), want), desc)
            for wn in ("ContractExecMsg", "ContractQueryMsg", "ContractSudoMsg"):
                if d.get("wrapper %s schema" % wn) != "any_of:" + want:
                    run.oracle_fail("the schema of %s is `%s`; expected any_of over the parts %s" % (wn, d.get("wrapper %s schema" % wn), want), desc)
    if pid == "C15":
        # the alias through which every generated user of a message type names it (ContractApi / InterfaceMessagesApi) must
        # supply exactly the parameters the type declares, in the same order - otherwise the expansion does not type-check
        # (or, worse, silently swaps two parameters of the same bounds) as soon as first-use order differs from declaration order
        for assoc, tn in (("Exec", "enum %sExecMsg" % prefix), ("Query", "enum %sQueryMsg" % prefix), ("Sudo", "enum %sSudoMsg" % prefix),
                          ("Instantiate", "struct InstantiateMsg"), ("Migrate", "struct MigrateMsg")):
            alias, declared = d.get("api " + assoc), d.get(tn + " generics")
            if alias is None or declared is None or alias.startswith("?"):
                continue
            _, _, aargs = alias.partition(":")
            if aargs != declared:
                run.oracle_fail("the %s alias names %s with parameters <%s>, the type is declared with <%s>" % (
                    assoc, tn.split()[1], aargs, declared), desc)
        gens = list(p.generics) if is_c else [n for n, _ in p.assoc if n != "Error"]
        for kind, base in (("exec", "ExecMsg"), ("query", "QueryMsg"), ("sudo", "SudoMsg"), ("instantiate", "InstantiateMsg"), ("migrate", "MigrateMsg")):
            if not is_c and kind in ("instantiate", "migrate"):
                continue
            tn = ("enum " if kind in ("exec", "query", "sudo") else "struct ") + prefix + base
            if tn + " generics" not in d:
                continue
            ms = [m for m in p.methods() if m.kind() == kind]
            used = []
            for m in ms:
                tys = [a.ty for a in m.args]
                if kind == "query":
                    ma = m.msg_attr()
                    if ma[2] is None and m.ret.kind == "path" and m.ret.segs[0][1]:
                        tys.append(m.ret.segs[0][1][0])
                    elif ma[2] is not None:
                        tys.append(gen.P(ma[2]))      # the response type named by `resp=` (it may be a type parameter)
                for t in tys:
                    for g in gens:
                        if g not in used and gen.mentions(strip_self_ty(t), g):
                            used.append(g)
            got = [x for x in d.get(tn + " generics", "").split(",") if x]
            if sorted(got) != sorted(used) or len(set(got)) != len(got):
                run.oracle_fail("%s%s is parameterised by %s; its handlers use %s" % (prefix, base, got, used), desc)
            # bounds: only those of the user's predicates that mention no parameter outside `used`
            if is_c and kind in ("instantiate", "migrate"):
                want_w = []
                for w in p.where:
                    mentioned = [g for g in gens if gen.mentions(w.bounded, g) or any(gen.mentions(b, g) for b in w.bounds)]
                    if all(g in used for g in mentioned):
                        want_w.append(canon_ty(w.rust()))
                got_w = [x for x in d.get(tn + " impl_where", "").split(";") if x]
                if got_w != want_w:
                    run.oracle_fail("%s%s is constrained by %s; the user's bounds over its parameters %s are %s" % (prefix, base, got_w, used, want_w), desc)
            unused = [g for g in gens if g not in used]
            gotu = [x for x in d.get(tn + " dispatch_generics", "").split(",") if x]
            if sorted(gotu) != sorted(unused):
                run.oracle_fail("dispatch of %s%s takes the extra parameters %s; the unused ones are %s" % (prefix, base, gotu, unused), desc)
    if pid == "C17":
        fw = {}
        for a in p.attrs:
            if a.sv and a.sv[0] == "msg_attr":
                fw.setdefault(a.sv[1], []).append(canon_ty(a.sv[2]))
        for kind, base in (("exec", "ExecMsg"), ("query", "QueryMsg"), ("sudo", "SudoMsg"), ("instantiate", "InstantiateMsg"), ("migrate", "MigrateMsg")):
            if not is_c and kind in ("instantiate", "migrate"):
                continue
            tn = ("enum " if kind in ("exec", "query", "sudo") else "struct ") + prefix + base
            if tn + " attrs" not in d:
                continue
            got = [x for x in d.get(tn + " attrs", "").split(";;") if x]
            if got != fw.get(kind, []):
                run.oracle_fail("%s%s carries the forwarded attributes %s; forwarded to `%s` were %s" % (prefix, base, got, kind, fw.get(kind, [])), desc)
        for kind, base in (("exec", "ExecMsg"), ("query", "QueryMsg"), ("sudo", "SudoMsg")):
            en = prefix + base
            ms = [m for m in p.methods() if m.kind() == kind]
            variants = [v for v in d.get("enum %s variants" % en, "").split(",") if v and v != "_Phantom"]
            for m, v in zip(ms, variants):
                want = [canon_ty(a.sv[1]) for a in m.attrs if a.sv and a.sv[0] == "attr"]
                got = [x for x in d.get("variant %s::%s attrs" % (en, v), "").split(";;") if x and not x.startswith("returns(")]
                if got != want:
                    run.oracle_fail("variant %s::%s carries %s; its handler `%s` forwards %s" % (en, v, got, m.name, want), desc)
                wantf = ";".join("%s:%s[%s]" % (a.name, canon_ty(strip_self_txt(a.ty.rust())), "|".join("".join(x.rust().split()) for x in a.attrs)) for a in m.args)
                gotf = d.get("variant %s::%s fields" % (en, v))
                if gotf is not None and gotf != wantf:
                    run.oracle_fail("fields of %s::%s are `%s`; the arguments of `%s` are `%s`" % (en, v, gotf, m.name, wantf), desc)
    if pid == "C11" and is_c:
        ifs = [a.sv for a in p.attrs if a.sv and a.sv[0] == "messages"]
        for wn, ep in (("ContractExecMsg", "execute"), ("ContractQueryMsg", "query"), ("ContractSudoMsg", "sudo")):
            got = [x for x in d.get("wrapper %s bridged" % wn, "").split(",") if x]
            want = []
            for (_, module, as_name, cmsg, cquery) in ifs:
                want.append("%d:%d" % (1 if (cmsg and ep != "query") else 0, 1 if cquery else 0))
            if [g.split(":", 1)[1] for g in got] != want:
                run.oracle_fail("%s bridges its interfaces as %s (response:ctx), the custom(..) markers ask for %s" % (wn, got, want), desc)
    if pid in ("C03", "C04", "C05") and is_c:
        n_if = sum(1 for a in p.attrs if a.sv and a.sv[0] == "messages")
        for wn, ep in (("ContractExecMsg", "execute"), ("ContractQueryMsg", "query"), ("ContractSudoMsg", "sudo")):
            tables = [t for t in d.get("wrapper %s tables" % wn, "").split(",") if t]
            if len(tables) != n_if + 1 or any("!" in t or t.startswith("?") or t.startswith("<") for t in tables):
                run.oracle_fail("%s checks/consults the name lists `%s`; expected the %s lists of its %d interfaces and of the contract" % (
                    wn, ",".join(tables), ep, n_if), desc)
            vs = d.get("wrapper %s variants" % wn, "")
            acc = {"execute": "Exec", "query": "Query", "sudo": "Sudo"}[ep]
            if any(not x.endswith(":" + acc) for x in vs.split(",") if x):
                run.oracle_fail("%s wraps `%s`; every part must be the %s message" % (wn, vs, acc), desc)


def canon_ty(s):
    return "".join(s.split())


def strip_self_ty(t):
    from ..prog import Ty
    if t.kind == "path":
        segs = tuple((n, tuple(strip_self_ty(a) for a in args)) for n, args in t.segs if n != "Self")
        return Ty("path", segs=segs)
    return Ty(t.kind, items=tuple(strip_self_ty(a) for a in t.items))


def strip_self_txt(s):
    return s.replace("Self::", "")


def run_l1(run, pid, rng, n):
    g = gen.ProgGen(rng)
    progs = []
    for i in range(n):
        progs.append(g.gen_contract() if i % 3 else g.gen_iface())
    res, err = l1.run_programs(progs, tag=pid.lower())
    if err:
        run.translator_error("L1 model evaluation failed: " + err)
    rx = L1_LINES[pid]
    for p, r in zip(progs, res):
        run.count()
        text = p.rust_impl() if isinstance(p, Contract) else p.rust_trait()
        desc = {"level": "L1", "program": text}
        run.dist("l1:%s:%s" % ("contract" if isinstance(p, Contract) else "interface", r["facts"].status))
        if r["facts"].status == "accepted":
            run.nontriv(("l1", text))
        l1_oracle(pid, p, r["impl"], run, desc)
        if r["model"] is not None:
            diffs = [(k, a, b) for (k, a, b) in l1.diff_lines([l for l in r["model"] if rx.match(l)],
                                                              [l for l in r["impl"] if rx.match(l)])]
            if diffs:
                run.disagree("expansion facts (%s)" % diffs[0][0], desc, ["%s=%s" % (k, a) for k, a, b in diffs[:4]],
                             ["%s=%s" % (k, b) for k, a, b in diffs[:4]])
    run.programs += len(progs)
    return len(progs)


def build_corpus(run, rng, thorough):
    """The corpus is a function of (seed, tier) only, so that the message-level checks share one build."""
    crng = random.Random(run.seed * 7919 + (1 if thorough else 0))
    n = 36 if thorough else 14
    progs = [gen.gen_l2_program(crng) for _ in range(n)]
    progs.append(crafted_generic_program())
    c = corpus.Corpus(progs, tag="msg_%s" % ("t" if thorough else "q")).build()
    rejected = [i for i, nm in enumerate(c.names) if "__rejected" in nm]
    run.dist("l2:programs", len(progs) - len(rejected))
    run.dist("l2:programs_rejected_by_macro", len(rejected))
    run.programs += len(progs) - len(rejected)
    return c


def crafted_generic_program():
    """a generic contract whose own queries use its parameter, with two interfaces whose queries use associated types:
    every part of the contract-level query is generic"""
    from ..corpus import L2Prog, L2Iface, L2Method
    from ..prog import Arg, P, PP
    p = L2Prog(name="Ctr")
    p.generics = [("T", P("u32"))]
    p.methods = [L2Method("init_it", "instantiate", [Arg("seed", P("T"))]),
                 L2Method("own_q", "query", [Arg("key", P("T")), Arg("n", P("u8"))]),
                 L2Method("own_q2", "query", [Arg("keys", P("Vec", P("T")))], ret="arg0"),
                 L2Method("own_e", "exec", [Arg("v", P("Option", P("T")))]),
                 L2Method("own_s", "sudo", [Arg("v", P("T"))])]
    for k, (tr, an, conc) in enumerate([("Cw1", "ItemT", P("String")), ("Whitelist", "Param", P("u64"))]):
        it = L2Iface(mod="i%d" % k, trait=tr)
        it.assoc = [(an, conc)]
        it.methods = [L2Method("q_%d" % k, "query", [Arg("item", PP("Self", an))]),
                      L2Method("qq_%d" % k, "query", [Arg("items", P("Vec", PP("Self", an)))], ret="arg0"),
                      L2Method("e_%d" % k, "exec", [Arg("item", PP("Self", an)), Arg("n", P("u32"))]),
                      L2Method("s_%d" % k, "sudo", [Arg("item", P("Option", PP("Self", an)))])]
        p.ifaces.append(it)
    return p


def run_l2(run, pid, rng, thorough, flags):
    c = build_corpus(run, rng, thorough)
    try:
        s = l2msg.Suite(run, c, rng, n_values=4 if thorough else 3)
        s.c17 = flags.get("c17", False)
        s.round_encode(c01=flags.get("c01", False))
        if flags.get("decode", True):
            s.round_decode(per_prog_docs=(30 if thorough else 10), c02=flags.get("c02", False),
                           c03=flags.get("c03", False), c04=flags.get("c04", False))
        if flags.get("tables", False):
            s.check_tables()
        if flags.get("schemas", False):
            s.check_schemas()
    finally:
        c.cleanup()
    return s


def check(run, pid, module, theorems, flags, replay=None, translated=None):
    """translated: (module, theorems) of the property's theorems about translated source (strengthening tie)"""
    if replay:
        data = json.load(open(replay))
        run.seed = data.get("seed", run.seed)
        run.tier = data.get("tier", run.tier)
    rng = random.Random(run.seed)
    thorough = run.tier == "thorough"
    preamble(run, module, theorems)
    if translated:
        from . import libcommon
        libcommon.regen_imp(run)
        for mod, ths in (translated if isinstance(translated, list) else [translated]):
            run.prove(mod, ths, strengthening=True)
    run_l1(run, pid, rng, 3000 if thorough else 240)
    run_l2(run, pid, rng, thorough, flags)
    if replay:
        print("replayed seed=%s tier=%s: %d oracle failure(s)" % (run.seed, run.tier, len(run.oracle_failures)))
        for f in run.oracle_failures[:3]:
            print("  ", f["what"][:300])
        return 1 if run.oracle_failures else 0
