"""The generated `impl cw_multi_test::Contract` (contract/mt.rs): each of the six operations either decodes the message
type of its own kind and dispatches, or calls the entry point the user registered for exactly that kind.
Model-independent L1 oracle shared by C04 (kind isolation), C06 (overrides) and C12 (multitest operations)."""
import itertools
import re

from .. import common
from . import c06

ACCESSOR = {"instantiate": "Instantiate", "execute": "ContractExec", "query": "ContractQuery",
            "sudo": "ContractSudo", "migrate": "Migrate"}
KIND_OF_OP = {v: k for k, v in c06.CW_NAME.items()}   # execute -> exec


def mt_contract_bodies(facts):
    """bodies of the methods of the impl of cw_multi_test::Contract, by method name"""
    for k in facts.d:
        if k.startswith("::sv::mt::impl#") and k.endswith("|impl"):
            head = facts.one(k, "")
            if re.search(r"trait=[^;]*cw_multi_test :: Contract\b", head):
                pre = k[:-len("|impl")]
                out = {}
                for b in facts.d:
                    m = re.fullmatch(re.escape(pre) + r"::(\w+)\|body", b)
                    if m:
                        out[m.group(1)] = facts.one(b, "")
                return out
    return None


def oracle(desc, facts):
    fails = []
    if facts.status != "accepted":
        return fails
    bodies = mt_contract_bodies(facts)
    if bodies is None:
        return ["no impl of cw_multi_test::Contract in the multitest module"]
    overridden = set(desc["overrides"])
    for op in ("instantiate", "execute", "query", "sudo", "migrate", "reply"):
        body = bodies.get(op)
        if body is None:
            fails.append("multitest Contract impl has no `%s` operation" % op)
            continue
        kind = KIND_OF_OP[op]
        customs = set(re.findall(r"\bcustom_(\w+)\b", body))
        want = {kind} if kind in overridden else set()
        if customs != want:
            fails.append("multitest `%s` operation calls the entry point(s) registered for %s; registered overrides: %s (expected %s)" % (
                op, sorted(customs) or "no kind", sorted(overridden), sorted(want) or "its own dispatch"))
            continue
        if kind in overridden:
            if "Custom%sMsg" % kind.capitalize() not in body:
                fails.append("multitest `%s` operation does not decode the message type registered with its override: %s" % (op, body[:200]))
            continue
        others = [a for o, a in ACCESSOR.items() if o != op and re.search(r":: %s\b" % a, body)]
        if others:
            fails.append("multitest `%s` operation decodes the message of another kind (%s): %s" % (op, others, body[:200]))
        if op in ACCESSOR:
            defined = op != "migrate" or desc["has_migrate"]
            if defined and not re.search(r":: %s\b" % ACCESSOR[op], body):
                fails.append("multitest `%s` operation does not decode the contract's %s message: %s" % (op, ACCESSOR[op], body[:200]))
            if not defined and "dispatch" in body:
                fails.append("multitest `migrate` dispatches although no migrate handler is declared: %s" % body[:200])
        else:
            if desc["reply_fn"] and desc["reply_fn"] not in body and "dispatch_reply" not in body:
                fails.append("multitest `reply` operation does not reach the reply handler: %s" % body[:200])
    return fails


def run_cases(run, cases, tag):
    """cases: as built by c06.make_case (valid programs only are examined)"""
    reqs = [("m%d" % i, "contract", "", c["item"]) for i, c in enumerate(cases)]
    res = common.probe_run(reqs, tag=tag)
    n = 0
    for i, c in enumerate(cases):
        d = c["desc"]
        if not d["has_inst"] or not all(k in c06.KINDS for k in d["overrides"]) or d["generic"]:
            continue
        facts = common.Facts(res.get("m%d" % i, []))
        run.count()
        n += 1
        run.dist("mt_impl:status=" + facts.status)
        run.nontriv(("mt_impl", tuple(d["overrides"]), d["has_migrate"], bool(d["reply_fn"]), d["replies_feature"]))
        for f in oracle(d, facts):
            run.oracle_fail(f, {"level": "L1", "what": "multitest Contract impl", "desc": d, "item": c["item"]})
    return n


def sample_cases(rng, n):
    cases = []
    subs = [list(s) for r in range(0, 7) for s in itertools.combinations(c06.KINDS, r)]
    for sub in subs if n >= len(subs) else ([[k] for k in c06.KINDS] + rng.sample(subs, max(0, n - 6))):
        order = list(sub)
        rng.shuffle(order)
        cases.append(c06.make_case(order, True, rng.random() < 0.5, rng.choice([None, "on_reply"]), rng.random() < 0.5, False))
    return cases
