"""Shared pieces of the run-time-library properties (C10, C11, C20): GenLib regeneration, proofs."""
import json

from .. import common, translate, imp_translate


def preamble(run, module, theorems, needs=("into_msg", "remote", "features")):
    """needs: the parts of the run-time library tables (GenLib) this property's model depends on; a part that cannot be
    translated is an obligation broken for those properties only"""
    translate.regen_tables(run)
    try:
        translate.write_genlib(translate.generate_lib())
        for part, msg in translate.LAST_LIB.get("errors", {}).items():
            if part in needs:
                run.translator_error("run-time library tables (%s): %s" % (part, msg))
            else:
                run.notes.append("run-time library tables (%s), not used by this property: %s" % (part, msg))
    except translate.TranslateError as e:
        run.translator_error("run-time library tables: " + str(e))
    regen_imp(run)
    run.hygiene()
    run.prove(module, theorems)


def regen_imp(run):
    """GenImp.v: the imperative run-time library code (utils.rs overlap check, InstantiateBuilder) translated into the
    deep-embedded language of Model/Imp.v. Returns the list of parts that could not be translated (they are emitted
    as empty programs; the theorems about the translated source then do not build and are reported as not
    established - see Run.prove(strengthening=True))."""
    text, errors = imp_translate.generate()
    imp_translate.write(text)
    for e in errors:
        run.notes.append("translated-source tie: %s" % e)
    return errors


LIB_HEADER = ("From Coq Require Import String List ZArith.\nImport ListNotations.\n"
              "Require Import SV.Base.Json SV.Model.GenLib SV.Model.Lib SV.Model.Run.\nOpen Scope string_scope.\n")


def model_eval(run, exprs, tag):
    try:
        ok, out, _ = common.coq_make(["theories/Model/Lib.vo", "theories/Model/Run.vo"])
        if not ok:
            raise common.BuildError("model build failed", out[-2000:])
        return common.coq_eval(LIB_HEADER, exprs, tag=tag, per_file=300)
    except common.BuildError as e:
        run.translator_error("model evaluation failed: %s %s" % (e.what, (e.output or "")[-800:]))
        return None


def replay_setup(run, replay):
    if replay:
        data = json.load(open(replay))
        run.seed = data.get("seed", run.seed)
        run.tier = data.get("tier", run.tier)


def replay_finish(run, replay):
    if replay:
        print("replayed seed=%s tier=%s: %d oracle failure(s)" % (run.seed, run.tier, len(run.oracle_failures)))
        for f in run.oracle_failures[:3]:
            print("  ", f["what"][:300])
        return 1 if run.oracle_failures else 0
    return None
