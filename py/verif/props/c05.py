"""C05 - name collisions between a contract and its interfaces are rejected at build time."""
import itertools
import json
import random

from .. import common, libdiff, translate
from ..common import coq_string, coq_list

THEOREMS_T = ["c05_translated_source_panics_iff_shared", "c05_translated_source_passes_iff_disjoint",
              "c05_translated_source_refines_model", "c05_translated_source_deterministic", "c05_translated_source_any_run"]
THEOREMS_A = ["c05_overlap_check_panics_iff_shared", "c05_overlap_check_passes_iff_disjoint",
              "c05_overlap_check_total", "c05_published_list_sorted", "c05_published_list_is_wire_names",
              "c05_contract_compiles_iff_no_shared_name"]

ALPHA = ["a", "ab", "b", "ba_c"]
ALPHA2 = ["msg_a", "msg_b", "msg_b1", "msg", "ms", "n", "", "zz", "msg_a_", "Msg_a", "msg__a"]


def coq_lists(ls):
    return coq_list([coq_list([coq_string(s) for s in l]) for l in ls])


def is_strict_sorted(l):
    return all(l[i].encode() < l[i + 1].encode() for i in range(len(l) - 1))


def oracle_overlap(lists, outcome):
    """Property oracle on the real function, for sorted duplicate-free inputs only."""
    if not all(is_strict_sorted(l) for l in lists):
        return None
    shared = any(set(lists[i]) & set(lists[j]) for i in range(len(lists)) for j in range(i + 1, len(lists)))
    if outcome == "stuck":
        return "overlap check hit an out-of-range index / unreachable on sorted input"
    if shared and outcome != "panic":
        return "two parts share a name but the overlap check does not panic (the contract would compile)"
    if not shared and outcome != "done":
        return "no name is shared but the overlap check panics (the contract would not compile)"
    return None


def gen_overlap_cases(rng, thorough):
    cases = []
    sorted_lists = []
    for r in range(0, 4):
        for sub in itertools.combinations(sorted(ALPHA, key=lambda s: s.encode()), r):
            sorted_lists.append(list(sub))
    maxn = 4 if thorough else 3
    for n in range(0, maxn + 1):
        for tup in itertools.product(sorted_lists, repeat=n):
            cases.append([list(l) for l in tup])
    nrand = 3000 if thorough else 500
    for _ in range(nrand):
        n = rng.randint(0, 8)
        ls = []
        for _ in range(n):
            k = rng.choice([0, 0, 1, 2, 3, 4, 6])
            pool = rng.choice([ALPHA, ALPHA2, ALPHA + ALPHA2])
            l = [rng.choice(pool) for _ in range(k)]
            mode = rng.random()
            if mode < 0.7:
                l = sorted(set(l), key=lambda s: s.encode())
            elif mode < 0.85:
                l = sorted(l, key=lambda s: s.encode())      # sorted with duplicates
            ls.append(l)                                       # else: unsorted
        cases.append(ls)
    return cases


def check_overlap(run, rng, thorough, cases=None, translated=True):
    """translated: the translation of utils.rs succeeded, so GenImp.utils_program is the current source and is run too"""
    cases = cases if cases is not None else gen_overlap_cases(rng, thorough)
    obs = libdiff.run([{"op": "intersect", "lists": ls} for ls in cases], tag="c05")
    header = ("From Coq Require Import List.\nFrom Coq Require String.\nImport ListNotations.\nImport String.StringSyntax.\n"
              "Require Import SV.Model.Intersect SV.Model.ImpRun.\nLocal Open Scope string_scope.\n")
    model = None
    try:
        ok, out, _ = common.coq_make(["theories/Model/Intersect.vo", "theories/Model/ImpRun.vo"])
        if not ok:
            raise common.BuildError("model build failed", out[-2000:])
        model = common.coq_eval(header, ["run_case %s ++ imp_run_case %s" % (coq_lists(ls), coq_lists(ls)) for ls in cases], tag="c05", per_file=1500)
    except common.BuildError as e:
        run.translator_error("model evaluation failed: %s %s" % (e.what, (e.output or "")[-800:]))
    for i, ls in enumerate(cases):
        o = obs[i].get("outcome", "error:" + json.dumps(obs[i]))
        run.count()
        srt = all(is_strict_sorted(l) for l in ls)
        run.dist("overlap:n_lists=%d" % len(ls))
        run.dist("overlap:sorted=%s" % srt)
        run.dist("overlap:outcome=%s" % o)
        if len(ls) >= 2:
            run.nontriv(("overlap", json.dumps(ls)))
        if i % 997 == 0:
            run.sample({"lists": ls, "impl": o})
        f = oracle_overlap(ls, o)
        if f:
            run.oracle_fail(f, {"kind": "overlap", "lists": ls, "impl": o})
        if model is not None and model[i][:1] != [o]:
            run.disagree("assert_no_intersection outcome (hand-written model)", {"lists": ls, "sorted": srt}, model[i][:1], o)
        if model is not None and translated and model[i][1:] != [o]:
            # the Rust source as translated by the probe / imp_translate.py, run under the semantics of Model/Imp.v
            run.disagree("assert_no_intersection outcome (translated source under Imp semantics)", {"lists": ls, "sorted": srt}, model[i][1:], o)
    return len(cases)


def check(run, replay=None):
    rng = random.Random(run.seed)
    thorough = run.tier == "thorough"
    run.rule = ("overlap check: all tuples of <=3 (quick) / <=4 (thorough) sorted duplicate-free lists of length <=3 over a "
                "4-string alphabet (exhaustive) plus random tuples of 0..8 lists, sorted, sorted-with-duplicates and unsorted, "
                "run on the real sylvia::utils::assert_no_intersection and on the Coq model; non-trivial = at least two lists, distinct tuple")
    translate.regen_tables(run)
    from . import libcommon
    untranslated = [e for e in libcommon.regen_imp(run) if "utils.rs" in e]
    run.hygiene()
    run.prove("Props/C05", THEOREMS_A)
    # the tie by translation (theorems about sylvia/src/utils.rs as it is now); when it cannot be established the tie by
    # correspondence below decides alone and is run on the thorough case set
    tie = run.prove("Props/C05T", THEOREMS_T, strengthening=True)
    # ... and of the macro's construction of the lists handed to the assertion (one per attached interface, in order)
    run.prove("Props/C05I", ["c05_translated_overlap_lists_of_interfaces", "c05_translated_overlap_assertion_sees_every_part"], strengthening=True)
    deep = thorough or not tie
    if replay:
        data = json.load(open(replay))
        case = data.get("failure", {}).get("case", {})
        if case.get("kind") == "overlap":
            check_overlap(run, rng, thorough, cases=[case["lists"]], translated=not untranslated)
        print("replayed: %d oracle failure(s)" % len(run.oracle_failures))
        return 1 if run.oracle_failures else 0
    n = check_overlap(run, rng, deep, translated=not untranslated)
    if not tie:
        run.notes.append("correspondence run deepened to the thorough case set (%d tuples) because the translated-source theorems are not established" % n)
    run.exhaustive = True
    run.programs = n
    from . import c05_tables
    c05_tables.check_tables(run, rng, thorough)
