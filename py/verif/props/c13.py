"""C13 - the annotated source is passed through intact and expansion is deterministic."""
import glob
import json
import os
import random
import re

from .. import common, translate, gen
from ..common import coq_string, coq_list
from ..prog import Contract, Interface, Method, Arg, Other, P, sv_msg, foreign, Attr

THEOREMS = ["c13_only_attributes_change", "c13_item_attributes", "c13_method_attributes", "c13_foreign_attributes_survive",
            "c13_handler_parameter_attributes_removed", "c13_helper_methods_untouched", "c13_idempotent"]

THEOREMS_T = ["c13_translated_items_keep_foreign_attributes", "c13_translated_methods", "c13_translated_parameters",
              "c13_translated_remove_input_attr"]
THEOREMS_P = ["c13_translated_framework_attributes", "c13_translated_framework_attribute_names",
              "c13_regenerated_table_is_the_translated_function"]

HEADER = ("From Coq Require Import String List.\nImport ListNotations.\nRequire Import SV.Model.GenTables SV.Model.Strip.\n"
          "Open Scope string_scope.\n")

ADDED_BY_CONTRACT = "# [allow (clippy :: new_without_default)]"


def nows(s):
    return "".join(s.split())


def attr_path(text):
    m = re.match(r"#\s*!?\s*\[\s*([\w:\s]+?)\s*(?:[\(=\]])", text)
    if not m:
        return []
    return [x.strip() for x in m.group(1).split("::")]


def decorate(rng, item):
    """adds helper methods, nested items, doc comments, cfg/allow attributes, attributes on receiver and parameters"""
    extra = []
    if rng.random() < 0.7:
        extra.append(Other("#[inline]\n    fn helper_a(&self, #[cfg(test)] extra: u32, #[allow(unused)] y: u8) -> u32 { fn inner(#[allow(unused_variables)] z: u8) {} 1 }"))
    if rng.random() < 0.5:
        extra.append(Other("/// documented helper\n    #[doc(hidden)]\n    #[cfg_attr(test, allow(dead_code))]\n    fn helper_b(#[allow(unused)] &self) { let _c = |#[allow(unused)] q: u8| q; }"))
    if rng.random() < 0.4 and isinstance(item, Contract):
        extra.append(Other("#[allow(non_upper_case_globals)]\n    const Konst: u32 = { #[allow(unused)] let x = 1; x };"))
    if rng.random() < 0.4:
        extra.append(Other("#[sv::unknown_thing(1)]\n    #[must_use]\n    fn helper_c(&self) -> u8 { 3 }"))
    for e in extra:
        item.items.insert(rng.randint(0, len(item.items)), e)
    for m in item.methods():
        if rng.random() < 0.35:
            # nested items and closures inside a HANDLER body (for a trait: a default body): their parameter attributes
            # are not attributes on handler parameters and stay
            m.body = ("{ fn nested(#[allow(unused_variables)] z: u8, #[cfg(any())] w: u8) -> u8 { 0 } "
                      "let _c = |#[allow(unused)] q: u8| q; struct Local { #[allow(dead_code)] f: u8 } todo!() }")
        if rng.random() < 0.3:
            m.attrs.insert(rng.randint(0, len(m.attrs)), foreign("doc", None) if False else Attr(("doc",), "hidden"))
        if rng.random() < 0.2:
            m.self_attrs.append(Attr(("allow",), "unused"))
        if rng.random() < 0.2:
            m.ctx_attrs.append(Attr(("allow",), "unused_variables"))
    if rng.random() < 0.5:
        item.attrs.insert(rng.randint(0, len(item.attrs)), Attr(("cfg_attr",), "not(feature = \"library\"), allow(dead_code)"))
    if rng.random() < 0.3:
        item.attrs.append(Attr(("doc",), "hidden"))
    return item


def expected_attrs(orig_attrs):
    """The property stated on the attribute list of the input: (context, text) pairs that must remain."""
    # contexts: item | item/handler:n | item/helper:n | .../param:i | .../sig | .../body...
    out = []
    for ctx, text in orig_attrs:
        parts = ctx.split("/")
        path = attr_path(text)
        is_fw = len(path) == 2 and path[0] == "sv" and path[1] in SV_NAMES
        if ctx == "item" or (len(parts) == 2 and parts[1].split(":")[0] in ("handler", "helper")):
            if is_fw:
                continue
        if len(parts) == 3 and parts[1].startswith("handler:") and parts[2].startswith("param:"):
            continue
        out.append((norm_ctx(ctx), text))
    return out


def norm_ctx(ctx):
    """the probe classifies a method as handler/helper by the presence of sv::msg, which the macro removes"""
    return re.sub(r"/(handler|helper):", "/fn:", ctx)


SV_NAMES = set()


def judge(run, rid, facts, desc, kind):
    global SV_NAMES
    run.count()
    st = facts.status
    run.dist("expand:%s:%s" % (kind, st))
    if st != "accepted":
        return False
    run.nontriv(("src", desc.get("source", "")[:80], rid))
    orig = [tuple(x.split(" @@ ", 1)) for x in facts.all("orig|srcattr")]
    got = [tuple(x.split(" @@ ", 1)) for x in facts.all("input|srcattr")]
    if kind == "entry_points":
        if facts.one("orig|tokens") != facts.one("input|tokens"):
            run.oracle_fail("entry_points does not re-emit its input unchanged", desc)
    else:
        # a trailing comma of a parameter list is punctuation, not content (the macro rebuilds handler parameter lists)
        a = nows(facts.one("orig|tokens_noattr", "")).replace(",)", ")")
        b = nows(facts.one("input|tokens_noattr", "")).replace(",)", ")")
        if a != b:
            i = next((k for k in range(min(len(a), len(b))) if a[k] != b[k]), min(len(a), len(b)))
            run.oracle_fail("the re-emitted item differs from the source outside attributes: ...%s... vs ...%s..." % (
                a[max(0, i - 60):i + 60], b[max(0, i - 60):i + 60]), desc)
        want = expected_attrs(orig)
        g2 = [(norm_ctx(c), t) for c, t in got]
        if kind == "contract" and g2 and g2[0] == ("item", ADDED_BY_CONTRACT):
            g2 = g2[1:]
        if [(c, nows(t)) for c, t in g2] != [(c, nows(t)) for c, t in want]:
            missing = [x for x in want if (x[0], nows(x[1])) not in [(c, nows(t)) for c, t in g2]]
            extra = [x for x in g2 if (x[0], nows(x[1])) not in [(c, nows(t)) for c, t in want]]
            if not missing and not extra:
                gn, wn = [(c, nows(t)) for c, t in g2], [(c, nows(t)) for c, t in want]
                k = next(i for i in range(len(wn)) if gn[i] != wn[i])
                run.oracle_fail("attributes of the re-emitted item come back in another order: position %d holds %s, the source has %s there"
                                % (k, g2[k], want[k]), desc)
            else:
                run.oracle_fail("attributes of the re-emitted item: missing %s, unexpected %s" % (missing[:3], extra[:3]), desc)
    if facts.one("same_twice") != "true":
        run.oracle_fail("expanding the same input twice in one process gives different output", desc)
    return True


def to_block(facts):
    """abstract block (Coq term) from the probe's structural dump of the original item"""
    orig = [tuple(x.split(" @@ ", 1)) for x in facts.all("orig|srcattr")]

    def sa(text):
        p = attr_path(text)
        return "{| sa_path := %s; sa_text := %s |}" % (coq_list([coq_string(x) for x in p]), coq_string(nows(text)))
    item_attrs = [sa(t) for c, t in orig if c == "item"]
    members = []
    by_method = {}
    order = []
    for c, t in orig:
        parts = c.split("/")
        if len(parts) >= 2 and parts[1].split(":")[0] in ("handler", "helper"):
            if parts[1] not in by_method:
                by_method[parts[1]] = {"attrs": [], "params": {}}
                order.append(parts[1])
            if len(parts) == 2:
                by_method[parts[1]]["attrs"].append(t)
            elif len(parts) == 3 and parts[2].startswith("param:"):
                by_method[parts[1]]["params"].setdefault(int(parts[2].split(":")[1]), []).append(t)
    return item_attrs, by_method, order


def check(run, replay=None):
    global SV_NAMES
    if replay:
        data = json.load(open(replay))
        run.seed, run.tier = data.get("seed", run.seed), data.get("tier", run.tier)
    rng = random.Random(run.seed)
    thorough = run.tier == "thorough"
    run.rule = ("every item annotated with contract / interface / entry_points in sylvia/tests, sylvia/examples-like sources and examples/ "
                "(located with syn) plus generated impl blocks and traits decorated with helper methods, nested items, doc comments, "
                "cfg/allow/must_use, unknown sv:: attributes and attributes on receiver and parameters; each expanded by the real macro, "
                "the re-emitted item compared token for token outside attributes and attribute by attribute with the property's list; "
                "each input expanded twice in one process and once more in a second process; non-trivial = accepted input")
    r = translate.regen_tables(run)
    if r is not None and r[0].get("sv_attr"):
        SV_NAMES = set(k for k, _ in r[0]["sv_attr"])
    else:
        SV_NAMES = {"custom", "error", "messages", "msg", "override_entry_point", "attr", "msg_attr", "payload", "data", "features"}
    run.hygiene()
    run.prove("Props/C13", THEOREMS)
    # strengthening tie: `StripInput` of fold.rs translated from the source (GenImpFold.v)
    from . import libcommon
    libcommon.regen_imp(run)
    run.prove("Props/C13T", THEOREMS_T, strengthening=True)
    run.prove("Props/C13P", THEOREMS_P, strengthening=True)       # the attribute parser (a separate translation)
    # ---- real sources
    files = sorted(glob.glob(os.path.join(common.REPO, "sylvia", "tests", "*.rs")) +
                   glob.glob(os.path.join(common.REPO, "examples", "**", "src", "**", "*.rs"), recursive=True) +
                   glob.glob(os.path.join(common.REPO, "sylvia", "src", "**", "*.rs"), recursive=True))
    reqs = [("f%d" % i, "scan", "", f) for i, f in enumerate(files)]
    res = common.probe_run(reqs, tag="c13s")
    res2 = common.probe_run(reqs, tag="c13t", shards=3)          # second set of processes: cross-process determinism
    n_real = 0
    for rid, kv in sorted(res.items()):
        if "#" not in rid:
            continue
        f = common.Facts(kv)
        fi = int(rid.split("#")[0][1:])
        desc = {"level": "L1", "source": os.path.relpath(files[fi], common.REPO), "item": rid.split("#")[1], "macro": f.one("kind")}
        if judge(run, rid, f, desc, f.one("kind", "contract")):
            n_real += 1
            h2 = common.Facts(res2.get(rid, [])).one("out_hash")
            if h2 != f.one("out_hash"):
                run.oracle_fail("expanding the same input in another process gives different output (%s vs %s)" % (f.one("out_hash"), h2), desc)
    run.dist("real_items_accepted", n_real)
    if n_real < 20:
        run.translator_error("only %d annotated items found in the repository sources (expected dozens)" % n_real)
    # ---- generated
    g = gen.ProgGen(rng)
    progs = []
    for i in range(1200 if thorough else 150):
        item = g.gen_contract() if i % 3 else g.gen_iface()
        progs.append(decorate(rng, item))
    reqs = [("g%d" % i, "contract" if isinstance(p, Contract) else "interface", "", p.rust_impl() if isinstance(p, Contract) else p.rust_trait())
            for i, p in enumerate(progs)]
    res = common.probe_run(reqs, tag="c13g")
    res2 = common.probe_run(reqs[:60], tag="c13h", shards=2)
    model_exprs, model_idx = [], []
    for i, p in enumerate(progs):
        f = common.Facts(res.get("g%d" % i, []))
        src = reqs[i][3]
        desc = {"level": "L1", "program": src}
        ok = judge(run, "g%d" % i, f, desc, reqs[i][1])
        if ok and i < 60:
            h2 = common.Facts(res2.get("g%d" % i, [])).one("out_hash")
            if h2 != f.one("out_hash"):
                run.oracle_fail("expanding the same input in another process gives different output", desc)
        if ok:
            item_attrs, by_method, order = to_block(f)
            members = []
            for mname in order:
                m = by_method[mname]
                npar = max(list(m["params"].keys()) + [0])
                params = [coq_list([sa_term(t) for t in m["params"].get(k, [])]) for k in range(1, npar + 1)]
                members.append("MFn {| fi_attrs := %s; fi_recv_attrs := %s; fi_param_attrs := %s; fi_rest := \"\" |}" % (
                    coq_list([sa_term(t) for t in m["attrs"]]), coq_list([sa_term(t) for t in m["params"].get(0, [])]), coq_list(params)))
            blk = "{| b_attrs := %s; b_head := \"\"; b_members := %s |}" % (coq_list(item_attrs), coq_list(members))
            try:
                common.coq_string(blk.replace('"', ""))
            except ValueError:
                continue
            model_exprs.append("show_block (strip_block %s)" % blk)
            model_idx.append(i)
    model = None
    try:
        ok, out, _ = common.coq_make(["theories/Model/Strip.vo"])
        if not ok:
            raise common.BuildError("model build failed", out[-1500:])
        model = common.coq_eval(HEADER, model_exprs, tag="c13", per_file=40)
    except common.BuildError as e:
        run.translator_error("model evaluation failed: %s %s" % (e.what, (e.output or "")[-800:]))
    if model is not None:
        for i, ml in zip(model_idx, model):
            f = common.Facts(res.get("g%d" % i, []))
            got = [tuple(x.split(" @@ ", 1)) for x in f.all("input|srcattr")]
            impl = []
            for c, t in got:
                parts = c.split("/")
                if c == "item":
                    if (c, t) == ("item", ADDED_BY_CONTRACT):
                        continue
                    impl.append("item @@ " + nows(t))
                elif len(parts) == 2 and parts[1].split(":")[0] in ("handler", "helper"):
                    impl.append("fn @@ " + nows(t))
                elif len(parts) == 3 and parts[2].startswith("param:"):
                    impl.append("fn/%s @@ %s" % (parts[2], nows(t)))
            # (sequence is judged by the oracle above; the model comparison is position-by-position as multisets, because
            #  attributes of non-method members share the item context in the probe's dump)
            if sorted(ml) != sorted(impl):
                run.disagree("attributes after stripping", {"program": reqs[i][3]}, [x for x in ml if x not in impl][:4], [x for x in impl if x not in ml][:4])
    run.programs = len(progs) + n_real
    if replay:
        print("replayed seed=%s tier=%s: %d oracle failure(s)" % (run.seed, run.tier, len(run.oracle_failures)))
        return 1 if run.oracle_failures else 0


def sa_term(text):
    p = attr_path(text)
    return "{| sa_path := %s; sa_text := %s |}" % (coq_list([coq_string(x) for x in p]), coq_string(nows(text)))
