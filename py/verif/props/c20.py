"""C20 - a stored remote handle has a stable, type-independent encoding."""
import json
import random

from .. import common, libdiff, jsonx
from ..common import coq_string
from . import libcommon

THEOREMS = ["c20_encoding_is_addr_object", "c20_encoding_independent_of_type_and_ownership", "c20_decode_encode", "c20_schema_name"]
TYPES = ["contract", "dyn", "dyn_assoc", "empty", "unit"]
ADDRS = ["", "a", "cosmos1xyz", "cosmwasm1qwertyuiopasdfghjklzxcvbnm0123456789", "with space", "quo\"te", "back\\slash",
         "unié中", "new\nline", "x" * 300, "{\"addr\":\"nested\"}", "null", "0"]


def rand_addr(rng):
    if rng.random() < 0.5:
        return rng.choice(ADDRS)
    n = rng.choice([1, 5, 20, 44, 64])
    return "".join(rng.choice("abcdefghijklmnopqrstuvwxyz0123456789_-. \"\\/") for _ in range(n))


def check(run, replay=None):
    libcommon.replay_setup(run, replay)
    rng = random.Random(run.seed)
    thorough = run.tier == "thorough"
    run.rule = ("every (type parameter in {contract, dyn Interface, dyn Interface with associated type, Empty, ()} x owned/borrowed x "
                "address string) encoded by the real Remote with both JSON back ends and decoded back; malformed documents; schema per "
                "type parameter; non-trivial = distinct (type, ownership, address) or distinct document")
    libcommon.preamble(run, "Props/C20", THEOREMS, needs=("remote",))
    n = 400 if thorough else 60
    ops, meta = [], []
    addrs = list(ADDRS) + [rand_addr(rng) for _ in range(n)]
    for a in addrs:
        for t in TYPES:
            for owned in (True, False):
                ops.append({"op": "remote_ser", "ty": t, "addr": a, "owned": owned})
                meta.append(("ser", t, owned, a))
    docs = []
    for a in addrs[:40]:
        good = jsonx.JObj([("addr", a)])
        docs += [("good", good, a), ("extra_member", jsonx.JObj([("zz", 1), ("addr", a), ("_phantom", None)]), a),
                 ("missing", jsonx.JObj([]), None), ("renamed", jsonx.JObj([("address", a)]), None),
                 ("wrong_type", jsonx.JObj([("addr", 5)]), None), ("not_object", a, None),
                 ("null_addr", jsonx.JObj([("addr", None)]), None), ("array", [a], None)]
    for label, d, want in docs:
        for t in TYPES:
            ops.append({"op": "remote_de", "ty": t, "json": jsonx.to_text(d)})
            meta.append(("de", t, label, d, want))
    for t in TYPES:
        ops.append({"op": "remote_schema", "ty": t})
        meta.append(("schema", t))
    ops.append({"op": "remote_schema_multi"})
    meta.append(("schema_multi",))
    obs = libdiff.run(ops, tag="c20")
    # model
    exprs, eidx = [], []
    for i, m in enumerate(meta):
        if m[0] == "ser" and jsonx.coq_safe(m[3]):
            exprs.append("[show_opt_json (encode_remote %s %s %s)]" % (coq_string(m[1]), "true" if m[2] else "false", coq_string(m[3])))
            eidx.append(i)
        elif m[0] == "de" and jsonx.coq_safe(m[3]):
            exprs.append("[match decode_remote %s %s with Some a => a | None => \"<reject>\" end]" % (coq_string(m[1]), jsonx.to_coq(m[3])))
            eidx.append(i)
    model = libcommon.model_eval(run, exprs, "c20")
    mby = dict(zip(eidx, model)) if model is not None else {}
    schemas = {}
    for i, (m, o) in enumerate(zip(meta, obs)):
        run.count()
        if m[0] == "ser":
            _, t, owned, a = m
            run.dist("ser:ty=%s" % t)
            run.nontriv(("ser", t, owned, a))
            desc = {"op": "encode", "type_param": t, "owned": owned, "addr": a}
            want = jsonx.JObj([("addr", a)])
            for backend in ("wasm", "std"):
                got = o.get(backend)
                if got is None:
                    run.oracle_fail("encoding the handle failed (%s back end)" % backend, desc)
                    continue
                if jsonx.parse(got) != want:
                    run.oracle_fail("handle encodes as %s, expected the single member addr: %s" % (got[:200], jsonx.to_text(want)[:200]), desc)
            if i in mby and o.get("wasm") is not None:
                if mby[i] != [jsonx.show(jsonx.parse(o["wasm"]))]:
                    run.disagree("Remote encoding", desc, mby[i], o["wasm"])
            if i % 97 == 0:
                run.sample({"type_param": t, "owned": owned, "addr": a[:60], "json": (o.get("wasm") or "")[:100]})
        elif m[0] == "de":
            _, t, label, d, want = m
            run.dist("de:%s" % label)
            run.nontriv(("de", t, jsonx.to_text(d)))
            desc = {"op": "decode", "type_param": t, "document": jsonx.to_text(d), "mutation": label}
            for backend in ("wasm", "std"):
                got = o.get(backend)
                if label in ("good", "extra_member"):
                    if got != want:
                        run.oracle_fail("decoding %s gives address %r, expected %r (%s back end)" % (jsonx.to_text(d)[:120], got, want, backend), desc)
                elif label in ("missing", "renamed", "wrong_type", "not_object", "array", "null_addr"):
                    # (serde's derived Deserialize also accepts the positional array form of a struct with serde_json:
                    # that is serde's behaviour, not part of the property, and is not judged)
                    if got is not None and label in ("missing", "renamed", "not_object"):
                        run.oracle_fail("a document without the member addr decodes to a handle (%r)" % got, desc)
            if label == "good" and o.get("wasm_reencoded") is not None and jsonx.parse(o["wasm_reencoded"]) != d:
                run.oracle_fail("decode then encode changes the document: %s" % o["wasm_reencoded"][:200], desc)
            if i in mby:
                impl = o.get("wasm")
                mod = mby[i][0] if mby[i] else "?"
                if (impl if impl is not None else "<reject>") != mod:
                    run.disagree("Remote decoding", desc, mby[i], impl)
        elif m[0] == "schema_multi":
            sch = o.get("schema") or {}
            defs = sch.get("definitions", {})
            names = sorted(k for k in defs if k.startswith("Remote"))
            refs = []
            for fname, fs in (sch.get("properties") or {}).items():
                txt = json.dumps(fs)
                refs += [x.split('"')[0].split("/")[-1] for x in txt.split('"$ref": "')[1:]]
            desc = {"op": "schema of a struct holding handles with four different type parameters", "definitions": names, "refs": refs}
            if names != ["Remote"] or any(r != "Remote" for r in refs) or len(refs) < 4:
                run.oracle_fail("handles with different type parameters are not one schema type `Remote` in a shared document: definitions %s, references %s" % (names, refs), desc)
        else:
            t = m[1]
            schemas[t] = o
            if o.get("name") != "Remote":
                run.oracle_fail("schema name of Remote<%s> is %r, expected Remote" % (t, o.get("name")), {"op": "schema", "type_param": t})
    base = schemas.get("contract", {}).get("schema")
    for t, o in schemas.items():
        if o.get("schema") != base:
            run.oracle_fail("JSON schema of the handle depends on the type parameter (%s differs from contract)" % t,
                            {"op": "schema", "type_param": t, "schema": o.get("schema")})
    run.programs = len(TYPES)
    return libcommon.replay_finish(run, replay)
