"""C06 - entry points exist exactly for defined, non-overridden kinds and forward calls."""
import itertools
import json
import random
import re

from .. import canon, common, translate
from ..common import coq_string, coq_list
from ..prog import Contract, Method, Arg, P, sv_msg, sv_override, sv_features, CTX_TYPE

KINDS = ["instantiate", "exec", "query", "migrate", "reply", "sudo"]
CW_NAME = {"instantiate": "instantiate", "exec": "execute", "query": "query", "migrate": "migrate",
           "reply": "reply", "sudo": "sudo"}
HAS_INFO = {"instantiate", "execute"}

THEOREMS = ["c06_override_names", "c06_entry_point_set", "c06_override_independent",
            "c06_body_independent_of_overrides", "c06_no_duplicates", "c06_names_are_cosmwasm",
            "c06_forwarding", "c06_reply_forwarding"]
THEOREMS_T = ["c06_translated_entry_point_set", "c06_translated_override_lookup",
              "c06_translated_default_entry_point_forwards_its_own_kind"]


def make_case(overrides, has_inst, has_migrate, reply_fn, replies, generic, given=None, order=None, more_replies=0):
    """more_replies: further reply methods (replies feature only): the reply entry point exists whenever at least one
    reply handler is declared, however many there are"""
    c = Contract("Ctr", generics=["T"] if generic else [])
    for k in overrides:
        c.attrs.append(sv_override(k, "crate::custom_%s" % k, "Custom%sMsg" % k.capitalize()))
    if replies:
        c.attrs.append(sv_features(["replies"]))
    ret = P("StdResult", P("Response"))
    if has_inst:
        c.items.append(Method("instantiate", [sv_msg("instantiate")], [], ret, ctx_ty="InstantiateCtx"))
    c.items.append(Method("do_it", [sv_msg("exec")], [Arg("x", P("u32"))], ret, ctx_ty="ExecCtx"))
    c.items.append(Method("ask", [sv_msg("query")], [], P("StdResult", P("u32")), ctx_ty="QueryCtx"))
    if has_migrate:
        c.items.append(Method("migrate", [sv_msg("migrate")], [], ret, ctx_ty="MigrateCtx"))
    if reply_fn:
        if replies:
            c.items.append(Method(reply_fn, [sv_msg("reply", reply_on="always")],
                                  [Arg("res", P("SubMsgResult")), Arg("p", P("Binary"))], ret, ctx_ty="ReplyCtx"))
            for k in range(more_replies):
                c.items.append(Method("%s_more%d" % (reply_fn, k), [sv_msg("reply", reply_on=["success", "error"][k % 2], handlers=["other%d" % (k // 2)])],
                                      ([Arg("err", P("String"))] if k % 2 else []) + [Arg("p", P("Binary"))], ret, ctx_ty="ReplyCtx"))
        else:
            c.items.append(Method(reply_fn, [sv_msg("reply")], [Arg("reply", P("Reply"))], ret, ctx_ty="ReplyCtx"))
    if order == "reversed":
        c.items.reverse()
    elif order is not None:
        order.shuffle(c.items)
    ngiven = (1 if generic else 0) if given is None else given
    attr = "generics<%s>" % ", ".join(["u32"] * ngiven) if ngiven else ""
    coq = ("{| ep_overrides := %s; ep_has_inst := %s; ep_has_migrate := %s; ep_reply_fn := %s; "
           "ep_replies_feature := %s; ep_contract_generics := %d; ep_given_generics := %d |}") % (
        coq_list([coq_string(k) for k in overrides]), "true" if has_inst else "false",
        "true" if has_migrate else "false",
        "None" if not reply_fn else "(Some %s)" % coq_string(reply_fn),
        "true" if replies else "false", 1 if generic else 0, ngiven)
    desc = {"overrides": list(overrides), "has_inst": has_inst, "has_migrate": has_migrate, "reply_fn": reply_fn,
            "replies_feature": replies, "generic": generic, "given_generics": ngiven,
            "method_order": [m.name for m in c.items], "more_replies": more_replies}
    return {"desc": desc, "attr": attr, "item": c.rust_impl(), "coq": coq}


def canon_impl(facts):
    """Probe facts of an entry_points expansion -> canonical list of strings (same format as show_ep)."""
    if facts.status != "accepted":
        return ["rejected"], {}
    out = ["accepted"]
    details = {}
    fns = [k[:-3] for k in facts.d if k.startswith("::entry_points::") and k.endswith("|fn")]
    for f in fns:
        name = f.split("::")[-1]
        body = facts.one(f + "|body", "")
        params = []
        i = 0
        while facts.one("%s#%d|param" % (f, i)) is not None:
            params.append(facts.one("%s#%d|param" % (f, i)))
            i += 1
        attrs = facts.all(f + "|attr")
        details[name] = {"params": params, "body": body, "attrs": attrs, "ret": facts.one(f + "|ret", "")}
        msg_ty = ""
        for p in params:
            m = re.match(r"pat=msg;ty=(.*)", p)
            if m:
                msg_ty = m.group(1)
        # (bindings inlined, equivalent spellings of the error conversion unified: canon.norm_expr)
        nb = canon.norm_expr(body).strip()
        if not (nb.startswith("{") and nb.endswith("}")):
            nb = "{ %s }" % nb
        m = re.fullmatch(r"\{ msg \. dispatch \(& (.+?) :: new \(\) , \((.*?)\)\) \. map_err \(Into :: into\) \}", nb)
        if m:
            acc = re.fullmatch(r"< (.+) as sylvia :: types :: ContractApi > :: (\w+)", msg_ty)
            vals = ",".join(x.strip() for x in m.group(2).split(",") if x.strip())
            out.append("%s=dispatch:%s:%s" % (name, acc.group(2) if acc else "?" + msg_ty, vals))
            details[name]["contract"] = m.group(1)
            continue
        m = re.fullmatch(r"\{ let contract = (.+?) :: new \(\) ; sv :: dispatch_reply \((.*?) , msg , contract\) \. map_err \(Into :: into\) \}", body) or \
            re.fullmatch(r"\{ ()sv :: dispatch_reply \((.*?) , msg , .+? :: new \(\)\) \. map_err \(Into :: into\) \}", nb)
        if m:
            vals = ",".join(x.strip() for x in m.group(2).split(",") if x.strip())
            out.append("%s=reply_dispatch:%s" % (name, vals))
            continue
        m = re.fullmatch(r"\{ (.+?) :: new \(\) \. (\w+) \(\((.*?)\) \. into \(\) , msg\) \. map_err \(Into :: into\) \}", body) or \
            re.fullmatch(r"\{ (.+?) :: new \(\) \. (\w+) \((?:\((.*?)\) \. into \(\)|Into :: into \(\((.*?)\)\)) , msg\) \. map_err \(Into :: into\) \}", nb)
        if m:
            vals = ",".join(x.strip() for x in (m.group(3) or (m.group(4) if m.lastindex and m.lastindex >= 4 else "") or "").split(",") if x.strip())
            out.append("%s=reply_legacy:%s:%s" % (name, m.group(2), vals))
            continue
        out.append("%s=unknown:%s" % (name, body))
    return out, details


def oracle(case, facts, details):
    """Direct statement of the property on the implementation's observation. Returns list of failures."""
    d = case["desc"]
    fails = []
    valid_over = all(k in KINDS for k in d["overrides"])
    must_reject = (not d["has_inst"]) or (d["given_generics"] != (1 if d["generic"] else 0)) or not valid_over
    if must_reject:
        if facts.status == "accepted":
            fails.append("program breaking an entry_points rule was accepted")
        return fails
    if facts.status != "accepted":
        fails.append("valid program rejected: %s" % facts.status)
        return fails
    defined = {"instantiate", "execute", "query", "sudo"}
    if d["has_migrate"]:
        defined.add("migrate")
    if d["reply_fn"]:
        defined.add("reply")
    expected = defined - {CW_NAME[k] for k in d["overrides"]}
    got = set(details.keys())
    if got != expected:
        fails.append("entry point set %s, expected %s (defined %s minus overridden %s)" % (
            sorted(got), sorted(expected), sorted(defined), d["overrides"]))
    for name, det in details.items():
        pnames = []
        for p in det["params"]:
            m = re.match(r"pat=(\w+);", p)
            pnames.append(m.group(1) if m else p)
        want = ["deps", "env"] + (["info"] if name in HAS_INFO else []) + ["msg"]
        if pnames != want:
            fails.append("entry point %s has parameters %s, expected %s" % (name, pnames, want))
        body = det["body"]
        for v in want:
            if not re.search(r"\b%s\b" % v, body):
                fails.append("entry point %s does not forward `%s`: %s" % (name, v, body))
        if not re.search(r":: new \(\)|:: default \(\)", body):
            fails.append("entry point %s does not build the contract with its parameterless constructor: %s" % (name, body))
        # the error conversion can be spelled in several equivalent ways; a body that spells it in none of the known ones is
        # not evidence of a violation (it shows up as a disagreement with the model; behaviour is observed by C02 / C12 at L2)
        conv = re.search(r"map_err \((?:Into :: into|From :: from|\| (\w+) \| \1 \. into \(\)|\| (\w+) \| (?:Into :: into|From :: from) \(\2\))\)|\? ;? ?\}? ?Ok \(", body)
        # (... incl. an explicit match that rebuilds the Err with the converted error)
        arm_conv = re.search(r"Err \((\w+)\) => (?:return )?Err \((?:(?:Into :: into|From :: from) \(\1\)|\1 \. into \(\))\)", body)
        if not conv and not arm_conv and "map_err" not in body and "?" not in body:
            fails.append("entry point %s returns the dispatch outcome without converting the error: %s" % (name, body))
        if not any("entry_point" in a for a in det["attrs"]):
            fails.append("entry point %s lacks the entry_point attribute" % name)
        if name != "reply":
            kind_acc = {"instantiate": "Instantiate", "execute": "ContractExec", "query": "ContractQuery",
                        "sudo": "ContractSudo", "migrate": "Migrate"}[name]
            msg_p = [p for p in det["params"] if p.startswith("pat=msg;")]
            if not msg_p or not msg_p[0].endswith(":: " + kind_acc):
                fails.append("entry point %s decodes %s, expected the contract's %s message" % (name, msg_p, kind_acc))
            if "msg . dispatch" not in body:
                fails.append("entry point %s does not dispatch the message: %s" % (name, body))
    return fails


def gen_cases(run, rng, thorough):
    cases = []
    # exhaustive: every subset of overridden kinds x migrate x reply x replies feature x generic
    for r in range(0, 7):
        for sub in itertools.combinations(KINDS, r):
            for has_migrate in (False, True):
                for reply_fn in (None, "on_reply"):
                    for replies in (False, True):
                        for generic in (False, True):
                            order = list(sub)
                            rng.shuffle(order)
                            cases.append(make_case(order, True, has_migrate, reply_fn, replies, generic))
                            # the declaration order of the methods is not to matter: reversed (reply before migrate) and shuffled twins
                            if has_migrate or reply_fn:
                                cases.append(make_case(order, True, has_migrate, reply_fn, replies, generic, order="reversed"))
                                cases.append(make_case(order, True, has_migrate, reply_fn, replies, generic, order=rng))
                            if reply_fn and replies:
                                cases.append(make_case(order, True, has_migrate, reply_fn, replies, generic, order=rng,
                                                       more_replies=rng.choice([1, 2, 3])))
    run.exhaustive = True
    # ordered lists with duplicates, rule-breaking programs
    extra = 400 if thorough else 60
    for _ in range(extra):
        n = rng.randint(0, 8)
        ov = [rng.choice(KINDS) for _ in range(n)]
        cases.append(make_case(ov, True, rng.random() < 0.5, rng.choice([None, "on_reply", "reply", "handle_it2"]),
                               rng.random() < 0.5, rng.random() < 0.5, order=rng))
    for _ in range(30 if thorough else 10):
        ov = [rng.choice(KINDS) for _ in range(rng.randint(0, 3))]
        kind = rng.choice(["noinst", "generics", "badname"])
        if kind == "noinst":
            cases.append(make_case(ov, False, rng.random() < 0.5, None, False, False))
        elif kind == "generics":
            generic = rng.random() < 0.5
            given = rng.choice([0, 2]) if generic else 1
            cases.append(make_case(ov, True, False, None, False, generic, given=given))
        else:
            bad = rng.choice(["execute", "Query", "init", "exec_", "suDo"])
            cases.append(make_case(ov + [bad], True, False, None, False, False))
    return cases


def check(run, replay=None):
    rng = random.Random(run.seed)
    thorough = run.tier == "thorough"
    run.rule = ("every subset of overridden kinds x migrate x reply x replies-feature x generic (exhaustive, 1024 programs) "
                "plus random ordered override lists with duplicates and rule-breaking programs; a case is non-trivial when "
                "it is expanded by the real macro and its (override set, migrate, reply, feature, generic, validity) tuple is new")
    # 1. translator
    translate.regen_tables(run)
    # 2. proofs
    run.hygiene()
    run.prove("Props/C06", THEOREMS)
    # tie by translation of the macro's own decision logic (EntryPoints::emit, get_entry_point); the correspondence below is
    # exhaustive over the combinations in any case
    from . import libcommon
    libcommon.regen_imp(run)
    run.prove("Props/C06T", THEOREMS_T, strengthening=True)
    # the hand model of the core theorems and what was proved of the translated code agree
    run.prove("Props/C06B", ["c06_hand_model_overridden_is_the_translated_lookup", "c06_hand_model_emitted_is_the_translated_module"],
              strengthening=True)
    # 3. correspondence + oracle
    if replay:
        data = json.load(open(replay))
        cases = [data["failure"]["case"]] if "failure" in data else []
        cases = [c if "coq" in c else make_case(c["desc"]["overrides"], c["desc"]["has_inst"], c["desc"]["has_migrate"], c["desc"]["reply_fn"],
                                                c["desc"]["replies_feature"], c["desc"]["generic"]) for c in cases]
    else:
        cases = gen_cases(run, rng, thorough)
    reqs = [("c%d" % i, "entry_points", c["attr"], c["item"]) for i, c in enumerate(cases)]
    res = common.probe_run(reqs, tag="c06")
    ok_model, model_out = True, None
    try:
        ok, out, _ = common.coq_make(["theories/Model/EntryPoints.vo"])
        if not ok:
            raise common.BuildError("model build failed", out[-2000:])
        header = "From Coq Require Import String List.\nImport ListNotations.\nRequire Import SV.Model.Kinds SV.Model.EntryPoints.\nOpen Scope string_scope.\n"
        model_out = common.coq_eval(header, ["show_ep %s" % c["coq"] for c in cases], tag="c06")
    except common.BuildError as e:
        run.translator_error("model evaluation failed: %s %s" % (e.what, (e.output or "")[-800:]))
    for i, c in enumerate(cases):
        facts = common.Facts(res.get("c%d" % i, []))
        impl, details = canon_impl(facts)
        run.count()
        d = c["desc"]
        key = (tuple(sorted(set(d["overrides"]))), d["has_inst"], d["has_migrate"], bool(d["reply_fn"]),
               d["replies_feature"], d["generic"], d["given_generics"])
        run.nontriv(key)
        run.dist("overrides=%d" % len(d["overrides"]))
        run.dist("status=" + facts.status)
        if i % 173 == 0:
            run.sample({"program": c["item"], "attr": c["attr"], "impl": impl})
        for f in oracle(c, facts, details):
            run.oracle_fail(f, {"desc": d, "attr": c["attr"], "item": c["item"], "coq": c["coq"], "impl": impl})
        if model_out is not None:
            m = model_out[i]
            # the order of fn items inside the module is not an observable of the property
            if (m[:1], sorted(m[1:])) != (impl[:1], sorted(impl[1:])):
                run.disagree("entry_points facts", {"desc": d, "item": c["item"]}, m, impl)
    from . import mtimpl
    mtimpl.run_cases(run, [c for c in cases if "desc" in c], "c06mt")
    run.programs = len(cases)
    if replay:
        print("replayed %d case(s): %d oracle failure(s)" % (len(cases), len(run.oracle_failures)))
        return 1 if run.oracle_failures else 0
