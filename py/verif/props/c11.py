"""C11 - bridging to chain-custom types preserves the response and the call."""
import base64
import json
import random

from .. import common, libdiff, jsonx
from ..common import coq_string, coq_list
from . import libcommon

THEOREMS = ["c11_response_preserved", "c11_fails_iff_custom_message", "c11_every_standard_message_kind_is_bridged",
            "c11_arm_present_iff_kind_exists_under_every_feature_set"]
THEOREMS_T = ["c11_translated_into_response_preserves_under_every_feature_set", "c11_translated_into_response_preserves",
              "c11_translated_into_response_fails_on_custom", "c11_translated_into_msg",
              "c11_translated_bridged_arms", "c11_translated_bridged_context"]


def b64(s):
    return base64.b64encode(s.encode()).decode()


def gen_msg(rng, kind):
    c = lambda: {"denom": rng.choice(["uatom", "ujuno", "x"]), "amount": str(rng.randint(0, 10 ** 6))}
    if kind == "bank":
        return {"bank": rng.choice([{"send": {"to_address": "addr%d" % rng.randint(0, 9), "amount": [c() for _ in range(rng.randint(0, 2))]}},
                                    {"burn": {"amount": [c()]}}])}
    if kind == "custom":
        return {"custom": {}}
    if kind == "staking":
        return {"staking": rng.choice([{"delegate": {"validator": "val1", "amount": c()}},
                                       {"undelegate": {"validator": "val2", "amount": c()}}])}
    if kind == "distribution":
        return {"distribution": rng.choice([{"set_withdraw_address": {"address": "w1"}}, {"withdraw_delegator_reward": {"validator": "v"}}])}
    if kind == "stargate":
        return {"stargate": {"type_url": "/cosmos.bank.v1beta1.MsgSend", "value": b64("v%d" % rng.randint(0, 99))}}
    if kind == "any":
        return {"any": {"type_url": "/cosmos.gov.v1.MsgVote", "value": b64("a%d" % rng.randint(0, 99))}}
    if kind == "ibc":
        return {"ibc": {"close_channel": {"channel_id": "channel-%d" % rng.randint(0, 9)}}}
    if kind == "wasm":
        return {"wasm": rng.choice([{"execute": {"contract_addr": "c1", "msg": b64("{}"), "funds": [c()]}},
                                    {"clear_admin": {"contract_addr": "c2"}},
                                    {"instantiate": {"admin": None, "code_id": 7, "msg": b64("{}"), "funds": [], "label": "l"}}])}
    if kind == "gov":
        return {"gov": {"vote": {"proposal_id": rng.randint(1, 99), "option": rng.choice(["yes", "no", "abstain", "no_with_veto"])}}}
    raise ValueError(kind)


KINDS = ["bank", "custom", "staking", "distribution", "stargate", "any", "ibc", "wasm", "gov"]


def gen_response(rng, allow_custom=True):
    n = rng.choice([0, 1, 1, 2, 3, 6])
    kinds = [k for k in KINDS if allow_custom or k != "custom"]
    msgs = []
    for _ in range(n):
        k = rng.choice(kinds) if rng.random() < 0.85 else rng.choice([x for x in kinds if x != "custom"])
        msgs.append({"id": rng.choice([0, 1, 77, 2 ** 63, 18446744073709551615]), "payload": b64(rng.choice(["", "p", "payload-%d" % rng.randint(0, 9)])),
                     "msg": gen_msg(rng, k), "gas_limit": rng.choice([None, 0, 60000, 2 ** 40]),
                     "reply_on": rng.choice(["always", "error", "success", "never"])})
    attrs = [{"key": "k%d" % i, "value": rng.choice(["", "v", "x y"])} for i in range(rng.choice([0, 1, 3]))]
    events = [{"type": "ev%d" % i, "attributes": [{"key": "a", "value": str(i)}]} for i in range(rng.choice([0, 0, 1, 2]))]
    data = rng.choice([None, b64(""), b64("data"), b64("\x00\x01")])
    return {"messages": msgs, "attributes": attrs, "events": events, "data": data}


def coq_response(r):
    subs = []
    for m in r["messages"]:
        (k, body), = m["msg"].items()
        variant = {"bank": "Bank", "custom": "Custom", "staking": "Staking", "distribution": "Distribution", "stargate": "Stargate",
                   "any": "Any", "ibc": "Ibc", "wasm": "Wasm", "gov": "Gov"}[k]
        fields = [("id", m["id"]), ("gas_limit", m["gas_limit"]), ("reply_on", m["reply_on"]), ("payload", m["payload"])]
        subs.append("{| sm_msg := {| cm_variant := %s; cm_body := %s |}; sm_fields := %s |}" % (
            coq_string(variant), jsonx.to_coq(jsonx.from_py(body)),
            coq_list(["(%s, %s)" % (coq_string(a), jsonx.to_coq(jsonx.from_py(b))) for a, b in fields])))
    attrs = coq_list(["(%s, %s)" % (coq_string(a["key"]), coq_string(a["value"])) for a in r["attributes"]])
    events = coq_list([jsonx.to_coq(jsonx.from_py(e)) for e in r["events"]])
    data = "None" if r["data"] is None else "(Some %s)" % coq_string(r["data"])
    return "{| r_messages := %s; r_attributes := %s; r_events := %s; r_data := %s |}" % (coq_list(subs), attrs, events, data)


def norm(v):
    """JSON equality up to object key order (responses are compared field for field, lists in order)."""
    return json.dumps(v, sort_keys=True)


def feature_witness():
    """Mirror of Lib.features_agree over the regenerated tables: the smallest feature set under which cosmwasm-std defines
    a message kind that sylvia's conversion has no arm for (or the other way round). None if there is none."""
    import itertools
    from .. import translate
    t = translate.LAST_LIB
    if not t:
        return None
    table = {n: (imp, fwd) for n, imp, fwd in t["feat_table"]}
    names = list(table)
    for r in range(0, len(names) + 1):
        for sub in itertools.combinations(names, r):
            en = list(sub)
            for _ in range(len(names)):
                for f in list(en):
                    for g in table.get(f, ([], []))[0]:
                        if g not in en:
                            en.append(g)
            std = {x for f in en for x in table.get(f, ([], []))[1]}
            arms = dict(t["arm_feats"])
            for v, vf in t["variant_feats"]:
                vp = all(f in std for f in vf)
                ap = v in arms and all(f in en for f in arms[v])
                if vp != ap:
                    return {"features": list(sub), "variant": v, "variant_present": vp, "arm_present": ap}
    return None


def run_under_features(run, w):
    """Builds the featdiff harness with exactly the witnessing features and converts a response holding the kind."""
    import os, shutil, subprocess
    from .. import common
    d = os.path.join(common.CACHE, "crates", "featdiff")
    src = os.path.join(common.VERIF, "harness", "featdiff")
    os.makedirs(os.path.join(d, "src"), exist_ok=True)
    feats = ", ".join('"%s"' % f for f in w["features"])
    with open(os.path.join(d, "Cargo.toml"), "w") as f:
        f.write(common.repo_paths(open(os.path.join(src, "Cargo.toml")).read().replace("@FEATURES@", feats)))
    shutil.copy(os.path.join(src, "src", "main.rs"), os.path.join(d, "src", "main.rs"))
    if not os.path.exists(os.path.join(d, "Cargo.lock")):
        shutil.copy(os.path.join(common.REPO, "Cargo.lock"), os.path.join(d, "Cargo.lock"))
    desc = {"cargo_features_of_sylvia": w["features"], "message_kind": w["variant"]}
    with common.locked("cargo"):
        env = common.cargo_env({"CARGO_TARGET_DIR": os.path.join(common.CACHE, "target-featdiff")})
        p = subprocess.run(["cargo", "build", "--offline", "--release"], cwd=d, env=env, capture_output=True, text=True)
    if p.returncode != 0:
        err = [l for l in p.stderr.splitlines() if l.startswith("error")][:3]
        run.oracle_fail("with the sylvia features %s the response conversion does not build: %s" % (w["features"], " | ".join(err)[:300]), desc)
        return
    rng = random.Random(1)
    kind = w["variant"].lower()
    resp = {"messages": [{"id": 5, "payload": b64("p"), "msg": gen_msg(rng, kind), "gas_limit": 123, "reply_on": "always"}],
            "attributes": [], "events": [], "data": None}
    inp = os.path.join(common.WORK, "featdiff_%d.in" % os.getpid())
    out = inp[:-3] + ".out"
    with open(inp, "w") as f:
        f.write(json.dumps(resp) + "\n")
    exe = os.path.join(common.CACHE, "target-featdiff", "release", "featdiff")
    subprocess.run([exe, inp, out], check=False)
    o = json.loads(open(out).read().splitlines()[0]) if os.path.exists(out) else {"err": "no output"}
    desc["response"] = resp
    if "ok" not in o and "bad_input" not in o:
        run.oracle_fail("built with the sylvia features %s, a response holding only a %s message (not custom-typed) fails to convert: %s" % (
            w["features"], w["variant"], str(o.get("err", o))[:200]), desc)


HARNESS_FEATURES = ["staking", "mt", "stargate", "iterator", "cosmwasm_2_0"]      # sylvia's default + harness/libdiff/Cargo.toml


def imp_response(r):
    """a response as a value of Model/Imp.v (the encoding of Facts/RespRefine.v; opaque parts are their JSON text)"""
    def vs(x):
        return "(VStr %s)" % coq_string(x if isinstance(x, str) else json.dumps(x, sort_keys=True, separators=(",", ":")))

    def opt(x):
        return "(VCon \"None\" [])" if x is None else "(VCon \"Some\" [%s])" % vs(str(x))
    subs = []
    for m in r["messages"]:
        (k, body), = m["msg"].items()
        if k == "stargate":
            msg = "(VRec \"CosmosMsg::Stargate\" [(\"type_url\", %s); (\"value\", %s)])" % (vs(body["type_url"]), vs(body["value"]))
        else:
            msg = "(VCon %s [%s])" % (coq_string("CosmosMsg::" + k.capitalize()), vs(body))
        subs.append("(VRec \"SubMsg\" [(\"id\", %s); (\"payload\", %s); (\"msg\", %s); (\"gas_limit\", %s); (\"reply_on\", (VCon %s []))])" % (
            vs(str(m["id"])), vs(m["payload"]), msg, opt(m["gas_limit"]), coq_string("ReplyOn::" + m["reply_on"].capitalize())))
    return ("(VRec \"Response\" [(\"messages\", VArr %s); (\"attributes\", VArr %s); (\"events\", VArr %s); (\"data\", %s)])" % (
        coq_list(subs), coq_list([vs(a) for a in r["attributes"]]), coq_list([vs(e) for e in r["events"]]), opt(r["data"])))


def run_translated(run, cases, obs):
    """the translated into_response.rs (GenImp.resp_program under the harness features), executed by the evaluator of
    Model/Imp.v on the same responses as the real function: validates the translation, the meaning given to the
    cosmwasm-std builder methods and the value encoding of the theorems in Props/C11T"""
    if any("into_response.rs" in n for n in run.notes):
        return
    header = ("From Coq Require Import String List.\nImport ListNotations.\nRequire Import SV.Model.Imp SV.Model.GenImp SV.Model.ImpRun.\n"
              "Local Open Scope string_scope.\n")
    feats = coq_list([coq_string(x) for x in HARNESS_FEATURES])
    idx = [i for i, c in enumerate(cases) if all(ord(ch) < 128 for ch in json.dumps(c, ensure_ascii=False)) and "bad_input" not in obs[i]]
    try:
        ok, out, _ = common.coq_make(["theories/Model/ImpRun.vo"])
        if not ok:
            raise common.BuildError("ImpRun build failed", out[-1500:])
        res = common.coq_eval(header, ["resp_outcome %s %d %s" % (feats, len(cases[i]["messages"]), imp_response(cases[i])) for i in idx],
                              tag="c11t", per_file=300)
    except common.BuildError as e:
        run.notes.append("translated into_response.rs could not be run: %s" % str(e)[:300])
        return
    for i, r in zip(idx, res):
        o = obs[i]
        if "ok" in o:
            impl = "same" if norm(o["ok"]) == norm(o["input"]) else "changed"
        else:
            impl = "custom" if "Custom Empty message" in o.get("err", "") else "error"
        run.count()
        if r != [impl]:
            run.disagree("translated into_response.rs vs the real function", {"response": cases[i]}, r, [impl])


def check(run, replay=None):
    libcommon.replay_setup(run, replay)
    rng = random.Random(run.seed)
    thorough = run.tier == "thorough"
    run.rule = ("random responses over the empty custom type (0..6 sub-messages of every CosmosMsg kind available under the harness features, "
                "ids incl. u64::MAX, payloads, gas limits, all reply triggers, attributes, events, data) converted by the real "
                "IntoResponse::<MyMsg>::into_response and by the model; every kind alone; non-trivial = distinct response")
    libcommon.preamble(run, "Props/C11", THEOREMS, needs=("into_msg", "features"))
    # tie by translation of sylvia/src/into_response.rs; when it is not established three times as many responses are
    # converted by the real code and by the model below
    tie = run.prove("Props/C11T", THEOREMS_T, strengthening=True)
    # search for a failing input when the feature theorem no longer holds: the witnessing feature set, for real
    try:
        w = feature_witness()
        if w is not None:
            run.notes.append("feature tables disagree: %s" % json.dumps(w))
            run_under_features(run, w)
    except Exception as e:      # the search is best effort; the broken theorem is reported in any case
        run.notes.append("feature witness search failed: %s" % e)
    cases = []
    for k in KINDS:                      # every kind alone, with every reply trigger
        for ro in ("always", "error", "success", "never"):
            cases.append({"messages": [{"id": 5, "payload": b64("p"), "msg": gen_msg(rng, k), "gas_limit": 123, "reply_on": ro}],
                          "attributes": [{"key": "a", "value": "b"}], "events": [], "data": b64("d")})
    for _ in range(3000 if thorough else (400 if tie else 1200)):
        cases.append(gen_response(rng))
    obs = libdiff.run([{"op": "into_response", "resp": c} for c in cases], tag="c11")
    model = libcommon.model_eval(run, [
        "match into_response %s with inr r => [\"ok\"; show_nat (length (r_messages r))] | inl ErrCustomMsg => [\"err\"; \"custom\"] | inl (ErrUnknownVariant v) => [\"err\"; \"unknown:\" ++ v] end"
        % coq_response(c) for c in cases], "c11")
    for i, (c, o) in enumerate(zip(cases, obs)):
        run.count()
        kinds = [list(m["msg"].keys())[0] for m in c["messages"]]
        for k in kinds:
            run.dist("msg_kind=%s" % k)
        run.dist("n_messages=%d" % len(kinds))
        run.nontriv(norm(c))
        desc = {"response": c}
        if "bad_input" in o:
            run.oracle_fail("harness generated a response cosmwasm-std does not parse: %s" % o["bad_input"][:200], desc)
            continue
        has_custom = "custom" in kinds
        if has_custom:
            if "err" not in o:
                run.oracle_fail("response contains a custom-typed message but the conversion succeeded", desc)
        else:
            if "ok" not in o:
                run.oracle_fail("response contains no custom-typed message (kinds %s) but the conversion failed: %s" % (
                    sorted(set(kinds)), o.get("err", "")[:200]), desc)
            elif norm(o["ok"]) != norm(o["input"]):
                diffs = [f for f in ("messages", "attributes", "events", "data") if norm(o["ok"].get(f)) != norm(o["input"].get(f))]
                run.oracle_fail("converted response differs from the original in %s: %s vs %s" % (
                    diffs, norm(o["ok"].get(diffs[0]))[:300], norm(o["input"].get(diffs[0]))[:300]), desc)
        if i % 211 == 0:
            run.sample({"kinds": kinds, "outcome": "ok" if "ok" in o else o.get("err", "")[:80]})
        if model is not None:
            impl = ["ok", str(len(o["ok"]["messages"]))] if "ok" in o else ["err", "custom" if "Custom Empty message" in o.get("err", "") else "unknown"]
            mod = list(model[i])
            if mod[0] == "err" and mod[1].startswith("unknown"):
                mod[1] = "unknown"
            if mod != impl:
                run.disagree("into_response outcome", desc, model[i], impl)
    run_translated(run, cases, obs)
    run.programs = 1
    # which interface arms are bridged (response -> into_response, ctx -> into_empty) in real expansions
    from . import msgprops
    msgprops.run_l1(run, "C11", rng, 1500 if thorough else 150)
    return libcommon.replay_finish(run, replay)
