"""C07 - reply routing honours the declared handler and outcome."""
from . import replyprops

THEOREMS = ["c07_known_id_reaches_its_entry", "c07_success_runs_the_method_declared_for_success",
            "c07_failure_runs_the_method_declared_for_error", "c07_either_outcome_runs_the_method_declared_for_always",
            "c07_uncovered_success_is_passed_through", "c07_uncovered_failure_is_that_error", "c07_unknown_id_is_an_error",
            "c07_one_entry_per_name"]


def check(run, replay=None):
    run.rule = ("L1: generated reply tables (valid and one-edit invalid; shared / separate names, all coverages, any declaration order) "
                "expanded by the real macro: ids, per-id success/error arms vs the Coq table model and vs the methods as declared; "
                "L2: compiled contracts with echo handlers, sv::dispatch_reply / the reply entry point driven with every id (incl. unknown), "
                "Ok/Err, random gas/events/message responses, data absent / good / malformed at envelope and JSON level, payload good / "
                "malformed; non-trivial = distinct (program, reply)")
    return replyprops.check(run, "C07", "Props/C07", THEOREMS, replay,
                            translated=[("Props/C07T", ["c07_translated_declared_handlers_run", "c07_translated_pass_through",
                                                       "c07_translated_always_handler"]),
                                        ("Props/C07R", ["c07_translated_reply_entry_of_one_handler", "c07_translated_payload_of_a_handler",
                                                        "c07_translated_second_handler_of_a_reply_id", "c07_translated_an_is_payload_marked"]),
                                        # the hand model of the core theorems and the specifications proved of the translated code agree
                                        ("Props/C07B", ["c07_hand_model_payload_is_the_translated_one", "c09_hand_model_merge_keeps_data_and_appends"])])
