"""C05 part B (published name lists); filled in once the expansion model exists."""


def check_tables(run, rng, thorough):
    return
