"""C05 part B: published name lists (sorted, equal to the serialised names) and real compilation of
contracts with and without a name shared between parts."""
from .. import common, rustc_batch
from . import msgprops

PRELUDE = """#![allow(unused_imports, unused_variables, dead_code, non_snake_case)]
use svfw::cw_std::{Response, StdError, StdResult};
use svfw::ctx::{ExecCtx, InstantiateCtx, QueryCtx, SudoCtx};
"""


def pair_program(iface_methods, contract_methods, kind):
    ctx = {"exec": "ExecCtx", "query": "QueryCtx", "sudo": "SudoCtx"}[kind]
    ret_i = "Result<u32, Self::Error>" if kind == "query" else "Result<Response, Self::Error>"
    ret_c = "StdResult<u32>" if kind == "query" else "StdResult<Response>"
    body = "Ok(0)" if kind == "query" else "Ok(Response::new())"
    out = [PRELUDE, "pub mod iface {", "    use super::*;", "    #[svfw::interface]", "    #[sv::custom(msg=svfw::cw_std::Empty, query=svfw::cw_std::Empty)]",
           "    pub trait Iface {", "        type Error: From<StdError>;"]
    for m in iface_methods:
        out.append("        #[sv::msg(%s)] fn %s(&self, ctx: %s) -> %s;" % (kind, m, ctx, ret_i))
    out += ["    }", "}", "pub struct Ctr;", "#[svfw::contract]", "#[sv::messages(iface)]", "impl Ctr {",
            "    pub const fn new() -> Self { Self }",
            "    #[sv::msg(instantiate)] pub fn instantiate(&self, ctx: InstantiateCtx) -> StdResult<Response> { Ok(Response::new()) }"]
    for m in contract_methods:
        out.append("    #[sv::msg(%s)] pub fn %s(&self, ctx: %s) -> %s { %s }" % (kind, m, ctx, ret_c, body))
    out += ["}", "impl iface::Iface for Ctr {", "    type Error = StdError;"]
    for m in iface_methods:
        out.append("    fn %s(&self, ctx: %s) -> %s { %s }" % (m, ctx, ret_i.replace("Self::Error", "StdError"), body))
    out += ["}", "fn main() {}"]
    return "\n".join(out) + "\n"


def multi_program(ifaces, contract_methods, kind):
    """several interfaces (each a list of method names) on one contract"""
    ctx = {"exec": "ExecCtx", "query": "QueryCtx", "sudo": "SudoCtx"}[kind]
    ret_i = "Result<u32, Self::Error>" if kind == "query" else "Result<Response, Self::Error>"
    ret_c = "StdResult<u32>" if kind == "query" else "StdResult<Response>"
    body = "Ok(0)" if kind == "query" else "Ok(Response::new())"
    out = [PRELUDE]
    for k, ms in enumerate(ifaces):
        out += ["pub mod iface%d {" % k, "    use super::*;", "    #[svfw::interface]", "    #[sv::custom(msg=svfw::cw_std::Empty, query=svfw::cw_std::Empty)]",
                "    pub trait Iface%d {" % k, "        type Error: From<StdError>;"]
        for m in ms:
            out.append("        #[sv::msg(%s)] fn %s(&self, ctx: %s) -> %s;" % (kind, m, ctx, ret_i))
        out += ["    }", "}"]
    out += ["pub struct Ctr;", "#[svfw::contract]"] + ["#[sv::messages(iface%d)]" % k for k in range(len(ifaces))] + [
        "impl Ctr {", "    pub const fn new() -> Self { Self }",
        "    #[sv::msg(instantiate)] pub fn instantiate(&self, ctx: InstantiateCtx) -> StdResult<Response> { Ok(Response::new()) }"]
    for m in contract_methods:
        out.append("    #[sv::msg(%s)] pub fn %s(&self, ctx: %s) -> %s { %s }" % (kind, m, ctx, ret_c, body))
    out.append("}")
    for k, ms in enumerate(ifaces):
        out += ["impl iface%d::Iface%d for Ctr {" % (k, k), "    type Error = StdError;"]
        for m in ms:
            out.append("    fn %s(&self, ctx: %s) -> %s { %s }" % (m, ctx, ret_i.replace("Self::Error", "StdError"), body))
        out.append("}")
    out.append("fn main() {}")
    return "\n".join(out) + "\n"


# (interfaces, contract methods, shares a wire name?): collisions between two INTERFACES (the contract does not have the
# name), between a middle interface and the contract, and collision-free programs with three parts
TRIPLES = [
    ([["mint", "transfer"], ["update_minter", "mint"]], ["deposit"], True),
    ([["mint", "transfer"], ["update_minter", "burn"]], ["deposit"], False),
    ([["transfer"], ["approve", "burn"]], ["burn", "mint"], True),
    ([["transfer"], ["approve", "burn"]], ["burn_from", "mint"], False),
    ([["burn", "burn_from"], ["send", "burn_from"]], [], True),
    ([["a"], ["b"], ["c"]], ["d"], False),
]


def wire(n):
    """serde's key for method n, independently of the model: UpperCamel by underscores/case/digit boundaries is
    not re-implemented here; only names whose wire form is evident are planted (see PAIRS)."""
    return n


# (interface methods, contract methods, shares a wire name?) - planted by hand so that the expected verdict
# does not depend on any casing model: `round_1`/`round1` both serialise as "round1"; `a_b`/`ab` do not collide
PAIRS = [
    (["pause", "unpause"], ["deposit", "pause"], True),
    (["pause", "unpause"], ["deposit", "withdraw"], False),
    (["round1", "round3"], ["round_1", "round2"], True),
    (["round1", "round3"], ["round_2", "round4"], False),
    (["a_b"], ["ab"], False),
    (["set_x_y", "alpha"], ["set_xy", "beta"], False),
    (["foo1_bar"], ["foo1_bar"], True),
    (["zeta", "alpha", "mid"], ["omega", "mid_", "beta"], True),
    (["zeta", "alpha", "mid"], ["omega", "mi_d", "beta"], False),
    (["b", "d", "f"], ["a", "c", "e", "f"], True),
    (["b", "d", "f"], ["a", "c", "e", "g"], False),
    (["only"], [], False),
]


def check_compiled_pairs(run, rng, thorough):
    kinds = ["exec", "query", "sudo"]
    files, meta = {}, {}
    pairs = PAIRS if thorough else [PAIRS[i] for i in (0, 1, 2, 4, 7, 8)]
    for i, (im, cm, shared) in enumerate(pairs):
        kind = kinds[i % 3] if not thorough else None
        for kind in ([kind] if kind else kinds):
            name = "pair_%d_%s" % (i, kind)
            files[name] = pair_program(im, cm, kind)
            meta[name] = (im, cm, shared, kind)
    triples = TRIPLES if thorough else [TRIPLES[i] for i in (0, 1, 2, 4)]
    for i, (ifs, cm, shared) in enumerate(triples):
        for kind in (kinds if thorough else [kinds[i % 3]]):
            name = "triple_%d_%s" % (i, kind)
            files[name] = multi_program(ifs, cm, kind)
            meta[name] = (ifs, cm, shared, kind)
    res = rustc_batch.compile_batch(files, tag="c05")
    for name, errs in res.items():
        im, cm, shared, kind = meta[name]
        run.count()
        run.nontriv(("pair", name))
        run.dist("compiled_pair:shared=%s" % shared)
        desc = {"level": "rustc", "interface_methods": im, "contract_methods": cm, "kind": kind, "program": files[name]}
        overlap = [e for e in errs if "Message overlaps" in e["message"] or "Message overlaps" in e["rendered"]]
        other = [e for e in errs if e not in overlap]
        if other and not overlap:
            run.oracle_fail("contract fails to compile for another reason: %s" % other[0]["message"][:300], desc)
        elif shared and not overlap:
            run.oracle_fail("two parts (interface / interface or interface / contract) share a %s message name but the contract compiles" % kind, desc)
        elif not shared and overlap:
            run.oracle_fail("no %s message name is shared but the contract is rejected: %s" % (kind, overlap[0]["message"][:200]), desc)


def check_tables(run, rng, thorough):
    msgprops.run_l1(run, "C05", rng, 2000 if thorough else 200)
    msgprops.run_l2(run, "C05", rng, thorough, {"decode": False, "tables": True})
    check_compiled_pairs(run, rng, thorough)
