"""Shared driver of the reply properties C07, C08, C09 (and the reply parts of C14, C18)."""
import base64
import json
import random
import re

from .. import common, translate, replies, jsonx
from ..common import coq_string, coq_list
from ..replies import RMethod, RProg, reference, method_for, b64, pb_exec, pb_inst
from ..prog import P

HEADER = ("From Coq Require Import String List ZArith NArith.\nImport ListNotations.\n"
          "Require Import SV.Base.Json SV.Model.Kinds SV.Model.Syntax SV.Model.Expand SV.Model.Reply SV.Model.Run SV.Model.RunReply.\n"
          "Open Scope string_scope.\n")


def preamble(run, module, theorems):
    translate.regen_tables(run)
    run.hygiene()
    run.prove(module, theorems)


def model_eval(run, header_extra, exprs, tag, per_file=200):
    if not exprs:
        return []
    try:
        ok, out, _ = common.coq_make(["theories/Model/RunReply.vo"])
        if not ok:
            raise common.BuildError("model build failed", out[-2000:])
        return common.coq_eval(HEADER + header_extra, exprs, tag=tag, per_file=per_file)
    except common.BuildError as e:
        run.translator_error("model evaluation failed: %s %s" % (e.what, (e.output or "")[-1200:]))
        return None


# ------------------------------------------------------------------------------------------ L1
def l1_oracle(pid, methods, impl, run, desc):
    valid, groups, order, why = reference(methods)
    accepted = impl[:1] == ["status=accepted"]
    d = {}
    for l in impl:
        k, _, v = l.partition("=")
        d[k] = v
    if pid in ("C18", "C07", "C14"):
        if valid and not accepted:
            run.oracle_fail("a reply table that breaks no rule is rejected", desc)
        if not valid and accepted:
            run.oracle_fail("a reply table breaking a rule is accepted (%s)" % "; ".join(why[:2]), desc)
    ids = [x for x in d.get("reply_ids", "").split(",") if x]
    if pid == "C08" and accepted:
        names = sorted({h for m in methods for h in m.claims()})
        if len(names) > len(ids):
            run.oracle_fail("distinct handler names %s get only %d reply ids %s" % (names, len(ids), ids), desc)
    if not (valid and accepted):
        return
    if pid in ("C08", "C07"):
        if ids != order:
            run.oracle_fail("reply id constants %s, expected one per distinct handler name in first-claim order %s" % (ids, order), desc)
        if "reply_ids_not_consecutive" in d:
            run.oracle_fail("reply ids are not distinct consecutive numbers: %s" % d["reply_ids_not_consecutive"], desc)
    for rid in order:
        g = groups[rid]
        okm, errm = method_for(g, "ok"), method_for(g, "err")
        if pid in ("C07", "C09", "C14"):
            got_ok, got_err = d.get("reply %s ok" % rid, ""), d.get("reply %s err" % rid, "")
            want_ok = "pass" if okm is None else ("always:%s" % okm.name if okm.on == "always" else "success:%s" % okm.name)
            want_err = "pass" if errm is None else ("always:%s" % errm.name if errm.on == "always" else "error:%s" % errm.name)
            # an arm whose shape the canonicaliser does not recognise is not evidence of a violation: it shows up as a
            # disagreement with the model (reported as such) and its behaviour is decided by the L2 run
            unrecognised = ("unparsed", "unparsed_args", "unexpected", "")
            if not (got_ok == want_ok or got_ok.startswith(want_ok + ":")) and got_ok.split(":")[0] not in unrecognised:
                run.oracle_fail("success arm of %s is `%s`, expected `%s`" % (rid, got_ok, want_ok), desc)
            if not (got_err == want_err or got_err.startswith(want_err + ":")) and got_err.split(":")[0] not in unrecognised:
                run.oracle_fail("error arm of %s is `%s`, expected `%s`" % (rid, got_err, want_err), desc)
            if pid in ("C09", "C07") and okm is not None and okm.on == "success":
                mode = mode_name(okm.data)
                parts = got_ok.split(":")
                if len(parts) >= 3 and parts[0] == "success" and parts[2] != mode:
                    run.oracle_fail("success arm of %s extracts data in mode `%s`, method %s declares `%s`" % (rid, parts[2], okm.name, mode), desc)
        if pid == "C08":
            b = d.get("reply %s builder" % rid, "")
            cover = ("Always" if (okm and errm) else ("Success" if okm else "Error"))
            parts = b.split(":")
            if b in ("", "<none>"):
                continue        # no builder recognised in this expansion: reported as a disagreement with the model, decided by L2
            if (len(parts) < 2 or parts[0] != g["handler"] or parts[1] != cover) and not (len(parts) >= 2 and parts[1] == "inconsistent"):
                run.oracle_fail("builder of %s is `%s`, expected method `%s` requesting ReplyOn::%s" % (rid, b, g["handler"], cover), desc)


def mode_name(d):
    if d is None:
        return "none"
    s = set(d)
    if "raw" in s:
        return "raw_opt" if "opt" in s else "raw"
    if "instantiate" in s:
        return "inst_opt" if "opt" in s else "inst"
    return "opt" if "opt" in s else "typed"


def run_l1(run, pid, rng, n, valid_bias=0.7):
    tables = [replies.gen_table(rng, valid_bias) for _ in range(n)]
    # a fifth more: tables in which a method claims several handler names (one of them shared with other methods, at any
    # position of its list) - the rarest shape of the plain stream and the one with the most bookkeeping in the macro
    want, tries = max(10, n // 5), 0
    while want and tries < 60 * n:
        tries += 1
        t = replies.gen_table(rng, 0.9)
        if any(len(m.handlers) >= 2 for m in t):
            tables.append(t)
            want -= 1
    n = len(tables)
    progs = [RProg(t, decor=replies.gen_decor(rng)) for t in tables]
    reqs = [("r%d" % i, "contract", "", p.contract().rust_impl()) for i, p in enumerate(progs)]
    res = common.probe_run(reqs, tag=pid.lower() + "r")
    model = model_eval(run, "", ["show_reply_contract %s" % p.contract().coq() for p in progs], pid.lower() + "r1", per_file=60)
    for i, p in enumerate(progs):
        facts = common.Facts(res.get("r%d" % i, []))
        impl = replies.canon_reply(facts)
        text = p.contract().rust_impl()
        desc = {"level": "L1", "program": text}
        run.count()
        valid = reference(p.methods)[0]
        run.dist("l1:reply_table:valid=%s:%s" % (valid, facts.status))
        run.nontriv(("l1r", text))
        l1_oracle(pid, p.methods, impl, run, desc)
        if model is not None:
            m = model[i]
            if pid in ("C07", "C09", "C14"):
                keep = lambda l: l.startswith("status") or l.startswith("reply_ids") or " ok=" in l or " err=" in l
            elif pid == "C08":
                keep = lambda l: l.startswith("status") or l.startswith("reply_ids") or " builder=" in l
            else:
                keep = lambda l: l.startswith("status")
            ml, il = sorted(filter(keep, m)), sorted(filter(keep, impl))
            if ml != il:
                diff = [x for x in ml if x not in il][:3], [x for x in il if x not in ml][:3]
                run.disagree("reply table facts", desc, diff[0], diff[1])
    run.programs += n
    return n


# ------------------------------------------------------------------------------------------ L2
def build_corpus(run, thorough):
    crng = random.Random(run.seed * 104729 + (3 if thorough else 2))
    progs = []
    while len(progs) < (30 if thorough else 10):
        t = replies.gen_table(crng, 1.0)
        if reference(t)[0]:
            progs.append(RProg(t))
    for _ in range(4):
        try:
            c = replies.ReplyCorpus(progs, tag="replies_%s" % ("t" if thorough else "q")).build()
            break
        except common.BuildError as e:
            # rustc names the generated file: a valid reply table whose expansion does not compile is a failing input
            bad = {}
            for m in re.finditer(r"src/p(\d+)\.rs:\d+:\d+: (error[^\n]*)", e.output or ""):
                bad.setdefault(int(m.group(1)), m.group(2))
            if not bad:
                raise
            for i, msg in sorted(bad.items()):
                if i < len(progs):
                    run.oracle_fail("a contract with a valid reply table does not compile with the generated code: %s" % msg[:300],
                                    {"level": "L2", "program": progs[i].contract(bodies=True).rust_impl()})
            progs = [p for i, p in enumerate(progs) if i not in bad]
    else:
        raise common.BuildError("reply corpus build failed repeatedly", "")
    run.programs += len(progs)
    return c


EVENTS = [[], [{"type": "wasm", "attributes": [{"key": "k", "value": "v"}]}],
          [{"type": "transfer", "attributes": []}, {"type": "wasm-x", "attributes": [{"key": "a", "value": "1"}]}]]
MSG_RESPONSES = [[], [{"type_url": "/cosmwasm.wasm.v1.MsgExecuteContractResponse", "value": b64(b"\x0a\x01x")}]]


def strip_q(s):
    return json.loads(s) if s.startswith('"') else s


class ReplySuite:
    def __init__(self, run, corpus, rng, pid):
        self.run, self.corpus, self.rng, self.pid = run, corpus, rng, pid
        self.ids = {}

    def coq_defs(self):
        return "\n".join("Definition rc_%d := %s." % (i, p.contract().coq()) for i, p in enumerate(self.corpus.progs)) + "\n"

    def fetch_ids(self):
        obs = self.corpus.run([{"prog": i, "op": "ids"} for i in range(len(self.corpus.progs))])
        for i, o in enumerate(obs):
            self.ids[i] = o
            p = self.corpus.progs[i]
            _, groups, order, _ = reference(p.methods)
            self.run.count()
            desc = {"prog": i, "program": p.contract().rust_impl(), "ids": o}
            if sorted(o.keys()) != sorted(order):
                self.run.oracle_fail("reply id constants %s, expected %s" % (sorted(o.keys()), sorted(order)), desc)
            if len(set(o.values())) != len(o):
                self.run.oracle_fail("two handler names share a reply id: %s" % o, desc)

    # ---- replies
    def data_situations(self, m):
        """[(label, data bytes or None, model tag or None, expected first-arg (echo text) or error class)]"""
        rng = self.rng
        d = m.data
        out = []
        if d is None:
            return [("absent", None, None, ("first", "<none>")), ("present", b"whatever", b64(b"whatever"), ("first", "<none>"))]
        s = set(d)
        opt = "opt" in s
        if "raw" in s:
            raw = rng.choice([b"", b"abc", b"\x00\xff"])
            enc = json.dumps(b64(raw))
            out.append(("good", raw, b64(raw), ("first", enc)))
            out.append(("absent", None, None, ("first", "null") if opt else ("err", "data_missing")))
            return out
        if "instantiate" in s:
            inner = rng.choice([None, b"in"])
            good = pb_inst("addr1", inner)
            tag = "addr1|%s" % (b64(inner) if inner is not None else "none")
            out.append(("good", good, tag, ("first", tag)))
            out.append(("absent", None, None, ("first", "none") if opt else ("err", "data_missing")))
            out.append(("env_bad", b"\xff\xff\xff", "ENV_BAD", ("err", "data_protobuf")))
            return out
        ty = m.data_ty or P("u32")
        v = replies.json_value_for(ty, rng)
        text = json.dumps(v, separators=(",", ":"))
        out.append(("good", pb_exec(text.encode()), text, ("first", text)))
        out.append(("absent", None, None, ("first", "null") if opt else ("err", "data_missing")))
        out.append(("env_bad", b"\xff\xff\xff", "ENV_BAD", ("err", "data_protobuf")))
        out.append(("inner_none", pb_exec(None), "INNER_NONE", ("err", "data_missing")))
        out.append(("json_bad", pb_exec(b"{not json"), "JSON_BAD1", ("err", "data_json")))
        out.append(("json_wrong_type", pb_exec(json.dumps(replies.wrong_json_for(ty)).encode()), "JSON_BAD2", ("err", "data_json")))
        return out

    def payload_situations(self, m0):
        """[(label, bytes, parsed tree for the model or 'NONE' or 'SKIP', expected echoed args or None=error)]"""
        rng = self.rng
        if m0.raw:
            raw = rng.choice([b"", b"raw-bytes", b"[1,2]"])
            return [("raw", raw, "RAW", [json.dumps(b64(raw))])]
        vals = [replies.json_value_for(t, rng) for _, t in m0.payload]
        good = vals[0] if len(vals) == 1 else vals
        text = json.dumps(good, separators=(",", ":"))
        out = [("good", text.encode(), jsonx.from_py(good), [json.dumps(v, separators=(",", ":")) for v in vals])]
        out.append(("not_json", b"{{", "NONE", None))
        out.append(("empty", b"", "NONE", None))
        if len(vals) > 1:
            out.append(("short", json.dumps(vals[:-1], separators=(",", ":")).encode(), jsonx.from_py(vals[:-1]), None))
            out.append(("not_array", b"5", 5, None))
        out.append(("wrong_type", json.dumps(replies.wrong_json_for(m0.payload[0][1]) if len(vals) == 1 else
                                             [replies.wrong_json_for(m0.payload[0][1])] + vals[1:], separators=(",", ":")).encode(), "SKIP", None))
        return out

    def run_replies(self, thorough):
        run, rng = self.run, self.rng
        ops, metas = [], []
        for pi, p in enumerate(self.corpus.progs):
            _, groups, order, _ = reference(p.methods)
            ids = self.ids.get(pi, {})
            for rid in order:
                if rid not in ids:
                    continue
                g = groups[rid]
                m0 = g["members"][0]
                for outcome in ("ok", "err"):
                    m = method_for(g, outcome)
                    dsits = self.data_situations(m) if (m is not None and outcome == "ok" and m.on == "success") else \
                        [("absent", None, None, None), ("present", b"\x0a\x02hi", b64(b"\x0a\x02hi"), None)]
                    psits = self.payload_situations(m0)
                    combos = [(d, ps) for d in dsits for ps in psits]
                    if not thorough and len(combos) > 8:
                        combos = [c for c in combos if c[0][0] == "good" or c[1][0] in ("good", "raw")] + rng.sample(combos, 3)
                    for dsit, psit in combos:
                        ev, mr = rng.choice(EVENTS), rng.choice(MSG_RESPONSES)
                        gas = rng.choice([0, 1, 123456, 2 ** 63])
                        errtext = rng.choice(["boom", "out of gas", ""])
                        op = {"prog": pi, "op": "reply", "id": ids[rid], "payload": b64(psit[1]), "gas_used": gas,
                              "via": rng.choice(["dispatch", "entry"]), "height": rng.randint(1, 10 ** 6),
                              "result": ({"ok": {"events": ev, "data": None if dsit[1] is None else b64(dsit[1]), "msg_responses": mr}}
                                         if outcome == "ok" else {"err": errtext})}
                        ops.append(op)
                        metas.append((pi, rid, outcome, m, m0, dsit, psit, op))
            # unknown ids
            for bad in (len(order), 4242, 2 ** 64 - 1):
                if bad not in ids.values():
                    op = {"prog": pi, "op": "reply", "id": bad, "payload": b64(b""), "gas_used": 1, "via": "dispatch",
                          "result": {"ok": {"events": [], "data": None, "msg_responses": []}}}
                    ops.append(op)
                    metas.append((pi, None, "ok", None, None, ("absent", None, None, None), ("empty", b"", "NONE", None), op))
        obs = self.corpus.run(ops)
        # model
        exprs, eidx = [], []
        for i, (pi, rid, outcome, m, m0, dsit, psit, op) in enumerate(metas):
            if psit[2] == "SKIP":
                continue
            if psit[2] == "RAW":
                parsed, ptxt = "None", b64(psit[1])
            elif psit[2] == "NONE":
                parsed, ptxt = "None", "P"
            else:
                if not jsonx.coq_safe(psit[2]):
                    continue
                parsed, ptxt = "(Some %s)" % jsonx.to_coq(psit[2]), "P"
            if outcome == "ok":
                data = "None" if dsit[1] is None else "(Some %s)" % coq_string(dsit[2] if dsit[2] is not None else "x")
                n_ev, n_mr = len(op["result"]["ok"]["events"]), len(op["result"]["ok"]["msg_responses"])
                res = "(SubOk {| so_events := %s; so_data := %s; so_msg_responses := %s |})" % (
                    coq_list(["JNull"] * n_ev), data, coq_list(["JNull"] * n_mr))
            else:
                if not jsonx.coq_safe(op["result"]["err"]):
                    continue
                res = "(SubErr %s)" % coq_string(op["result"]["err"])
            exprs.append("run_reply rc_%d %s {| rp_id := %d%%N; rp_payload := %s; rp_gas := %d%%N; rp_result := %s |}" % (
                pi, parsed, op["id"], coq_string(ptxt), op["gas_used"], res))
            eidx.append(i)
        model = model_eval(run, self.coq_defs(), exprs, self.pid.lower() + "r2")
        mby = dict(zip(eidx, model)) if model is not None else {}
        for i, (meta, o) in enumerate(zip(metas, obs)):
            self.judge_reply(meta, o, mby.get(i))

    def classify_err(self, text):
        if "Unknown reply id" in text:
            return "unknown_id"
        if "Missing reply data field" in text:
            return "data_missing"
        if "Failed deserializing protobuf data" in text:
            return "data_protobuf"
        if "Invalid reply data at block height" in text:
            return "data_json"
        if "handler " in text and " failed" in text:
            return "handler_failed"
        if re.search(r"Error parsing into type|ParseErr|EOF while parsing|expected|invalid type|Invalid type|trailing characters|invalid length|Invalid length", text):
            return "payload"
        return "sub_error"

    def judge_reply(self, meta, o, mod):
        run = self.run
        pi, rid, outcome, m, m0, dsit, psit, op = meta
        p = self.corpus.progs[pi]
        run.count()
        run.dist("reply:%s:%s:data=%s:payload=%s" % (outcome, "unknown_id" if rid is None else ("pass" if m is None else m.on), dsit[0], psit[0]))
        run.nontriv(("reply", pi, json.dumps(op, sort_keys=True)))
        desc = {"prog": pi, "program": p.contract().rust_impl(), "reply": op, "data_case": dsit[0], "payload_case": psit[0]}
        if o.get("panicked"):
            run.oracle_fail("dispatching the reply panicked: %s" % o.get("msg", ""), desc)
            return
        res, log = o.get("res", {}), o.get("storage", {}).get("log", [])
        impl_line = None
        if "ok" in res:
            a = res["ok"].get("attrs", {})
            if "handler" in a:
                first = a.get("first", "")
                impl_line = ["called", a["handler"], "gas=%s" % a.get("gas_used"), "events=%d" % len(json.loads(a.get("events", "[]"))),
                             "msgs=%d" % len(json.loads(a.get("msg_responses", "[]")))]
            else:
                impl_line = ["pass", "events=%d" % len(res["ok"].get("events") or []), "data=" + ("none" if res["ok"].get("data") is None else "some:" + res["ok"]["data"])]
        else:
            impl_line = ["err", self.classify_err(res.get("err", ""))]
        # ---------------- oracle (the property, stated on the observation)
        pid = self.pid
        if rid is None:
            if impl_line[0] != "err" or impl_line[1] != "unknown_id" or log:
                run.oracle_fail("a reply whose id belongs to no handler is not an unknown-id error: %s" % json.dumps(res)[:200], desc)
        elif m is None:
            if log:
                run.oracle_fail("no method covers the outcome but handler(s) %s ran" % log, desc)
            if outcome == "ok":
                sub = op["result"]["ok"]
                if "ok" not in res:
                    run.oracle_fail("uncovered success is not passed through: %s" % res.get("err", "")[:200], desc)
                else:
                    if res["ok"].get("events") != sub["events"]:
                        run.oracle_fail("pass-through lost the sub-message events: %s vs %s" % (json.dumps(res["ok"].get("events"))[:150], json.dumps(sub["events"])[:150]), desc)
                    if res["ok"].get("data") != sub["data"]:
                        run.oracle_fail("pass-through lost the sub-message data: %s vs %s" % (res["ok"].get("data"), sub["data"]), desc)
            else:
                if "err" not in res or op["result"]["err"] not in res["err"]:
                    run.oracle_fail("uncovered failure is not answered with that error: %s" % json.dumps(res)[:200], desc)
        else:
            payload_ok = psit[3] is not None
            data_exp = dsit[3] if (outcome == "ok" and m.on == "success") else None
            must_fail = (not payload_ok) or (data_exp is not None and data_exp[0] == "err")
            if must_fail:
                if log:
                    run.oracle_fail("undecodable %s but handler(s) %s were invoked" % ("payload" if not payload_ok else "data", log), desc)
                if "err" not in res:
                    run.oracle_fail("undecodable %s but the reply was answered: %s" % ("payload" if not payload_ok else "data", json.dumps(res)[:200]), desc)
                elif payload_ok and data_exp[1] != impl_line[1] and pid in ("C09",):
                    run.oracle_fail("data error class `%s`, expected `%s` (%s)" % (impl_line[1], data_exp[1], res["err"][:160]), desc)
            else:
                if "ok" not in res or "handler" not in res["ok"].get("attrs", {}):
                    run.oracle_fail("the %s outcome is covered by `%s` but the reply was answered without it: %s" % (outcome, m.name, json.dumps(res)[:300]), desc)
                else:
                    a = res["ok"]["attrs"]
                    if a["handler"] != m.name or log != [m.name]:
                        run.oracle_fail("the %s outcome of %s ran %s, expected exactly `%s`" % (outcome, rid, log, m.name), desc)
                    if a.get("gas_used") != str(op["gas_used"]):
                        run.oracle_fail("handler saw gas_used %s, reply carried %s" % (a.get("gas_used"), op["gas_used"]), desc)
                    ev, mr = json.loads(a.get("events", "[]")), json.loads(a.get("msg_responses", "[]"))
                    if outcome == "ok" and m.on == "success":
                        sub = op["result"]["ok"]
                        if ev != sub["events"] or mr != sub["msg_responses"]:
                            run.oracle_fail("success handler did not get the sub-message's events / message responses", desc)
                    elif ev or mr:
                        run.oracle_fail("a %s handler was handed events / message responses" % m.on, desc)
                    first = a.get("first", "")
                    if m.on == "error" and first != op["result"]["err"]:
                        run.oracle_fail("error handler got `%s`, the sub-message failed with `%s`" % (first, op["result"]["err"]), desc)
                    if m.on == "always":
                        want = {"ok": op["result"]["ok"]} if outcome == "ok" else {"error": op["result"]["err"]}
                        try:
                            got = json.loads(first)
                        except Exception:
                            got = first
                        if json.dumps(got, sort_keys=True) != json.dumps(want, sort_keys=True):
                            run.oracle_fail("always handler got result %s, expected %s" % (first[:150], json.dumps(want)[:150]), desc)
                    if m.on == "success" and data_exp is not None and first != data_exp[1]:
                        run.oracle_fail("data parameter is `%s`, expected `%s` (mode %s, data %s)" % (first[:120], data_exp[1][:120], mode_name(m.data), dsit[0]), desc)
                    got_pl = json.loads(a.get("payload", "[]"))
                    if [json.dumps(json.loads(x), sort_keys=True) for x in got_pl] != [json.dumps(json.loads(x), sort_keys=True) for x in psit[3]]:
                        run.oracle_fail("payload parameters %s, reply carried %s" % (got_pl, psit[3]), desc)
        # ---------------- model comparison
        if mod is not None:
            mi = list(mod)
            if impl_line[0] == "called":
                a = res["ok"]["attrs"]
                first = a.get("first", "")
                args = []
                if m is not None:
                    if m.on == "error":
                        args.append("error=" + first)
                    elif m.on == "always":
                        args.append("result=ok" if outcome == "ok" else "result=err:" + op["result"]["err"])
                    elif m.data is not None:
                        args.append("data=" + self.show_data(m, first))
                for x in json.loads(a.get("payload", "[]")):
                    if m0 is not None and m0.raw:
                        args.append("raw=" + strip_q(x))
                    else:
                        args.append("val=" + jsonx.show(jsonx.parse(x)))
                impl_full = impl_line + args
            else:
                impl_full = impl_line
                if impl_full[0] == "err" and impl_full[1] == "sub_error":
                    impl_full = ["err", "sub_error:" + op["result"].get("err", "") if outcome == "err" else "sub_error"]
            if mi != impl_full:
                run.disagree("reply dispatch", desc, mi, impl_full)

    def show_data(self, m, first):
        s = set(m.data)
        if "raw" in s:
            if "opt" in s:
                return "rawopt:" + ("none" if first == "null" else "some:" + strip_q(first))
            return "raw:" + strip_q(first)
        if "instantiate" in s:
            if "opt" in s:
                return "instopt:" + ("none" if first == "none" else 'some:"%s"' % first)
            return 'inst:"%s"' % first
        if "opt" in s:
            return "opt:" + ("none" if first == "null" else 'some:"%s"' % first)
        return 'typed:"%s"' % first

    # ---- builders
    def run_builders(self, thorough):
        run, rng = self.run, self.rng
        ops, metas = [], []
        for pi, p in enumerate(self.corpus.progs):
            _, groups, order, _ = reference(p.methods)
            for rid in order:
                g = groups[rid]
                m0 = g["members"][0]
                for recv in ("submsg", "wasm", "cosmos"):
                    for _ in range(3 if thorough else 1):
                        if m0.raw:
                            raw = rng.choice([b"", b"raw-bytes", b"\x00\x01"])
                            args, vals = [b64(raw)], None
                        else:
                            vals = [replies.json_value_for(t, rng) for _, t in m0.payload]
                            args = vals
                        op = {"prog": pi, "op": "build", "handler": g["handler"], "receiver": recv, "args": args,
                              "base_gas": rng.choice([None, 0, 250000])}
                        ops.append(op)
                        metas.append((pi, rid, g, m0, recv, vals, op))
        obs = self.corpus.run(ops)
        exprs, eidx = [], []
        for i, ((pi, rid, g, m0, recv, vals, op), o) in enumerate(zip(metas, obs)):
            if "ok" not in o:
                continue
            base = jsonx.to_coq(jsonx.from_py(o["base_msg"] if recv != "wasm" else o["wasm_msg"]))
            if recv == "submsg":
                r = "(RSubMsg %s [(\"id\", JNum 4242%%Z); (\"gas_limit\", %s); (\"reply_on\", JStr \"error\"); (\"payload\", JStr \"b2xk\")])" % (
                    base, "JNull" if op["base_gas"] is None else "(JNum %d%%Z)" % op["base_gas"])
            else:
                r = "(%s %s)" % ("RWasmMsg" if recv == "wasm" else "RCosmosMsg", base)
            if m0.raw:
                a = "(PRawBytes %s)" % coq_string(op["args"][0])
            else:
                if not all(jsonx.coq_safe(jsonx.from_py(v)) for v in vals):
                    continue
                a = "(PVals %s)" % coq_list([jsonx.to_coq(jsonx.from_py(v)) for v in vals])
            exprs.append("run_build rc_%d %s %s None %s" % (pi, coq_string(g["handler"]), r, a))
            eidx.append(i)
        model = model_eval(run, self.coq_defs(), exprs, self.pid.lower() + "b2")
        mby = dict(zip(eidx, model)) if model is not None else {}
        replies_ops, replies_meta = [], []
        for i, ((pi, rid, g, m0, recv, vals, op), o) in enumerate(zip(metas, obs)):
            run.count()
            p = self.corpus.progs[pi]
            run.dist("build:%s:%s" % (recv, "raw" if m0.raw else "typed%d" % len(m0.payload)))
            run.nontriv(("build", pi, json.dumps(op, sort_keys=True)))
            desc = {"prog": pi, "program": p.contract().rust_impl(), "builder": op}
            if "ok" not in o:
                run.oracle_fail("builder failed: %s" % json.dumps(o)[:200], desc)
                continue
            s = o["ok"]
            ids = self.ids.get(pi, {})
            if s.get("id") != ids.get(rid):
                run.oracle_fail("builder `%s` stamps id %s, the handler's id is %s" % (g["handler"], s.get("id"), ids.get(rid)), desc)
            okm, errm = method_for(g, "ok"), method_for(g, "err")
            cover = "always" if (okm and errm) else ("success" if okm else "error")
            if s.get("reply_on") != cover:
                run.oracle_fail("builder `%s` requests a reply on `%s`; methods exist for: %s" % (
                    g["handler"], s.get("reply_on"), [x.on for x in g["members"]]), desc)
            want_msg = o["wasm_msg"] if recv == "wasm" else o["base_msg"]
            if json.dumps(s.get("msg"), sort_keys=True) != json.dumps(want_msg, sort_keys=True):
                run.oracle_fail("builder changed the wrapped message", desc)
            want_gas = op["base_gas"] if recv == "submsg" else None
            if s.get("gas_limit") != want_gas:
                run.oracle_fail("sub-message gas limit is %s, expected %s" % (s.get("gas_limit"), want_gas), desc)
            pl = base64.b64decode(s.get("payload", ""))
            if m0.raw:
                if b64(pl) != op["args"][0]:
                    run.oracle_fail("raw payload changed: %s vs %s" % (b64(pl), op["args"][0]), desc)
            else:
                try:
                    got = json.loads(pl)
                except Exception:
                    got = "<not json>"
                want = vals[0] if len(vals) == 1 else vals
                if json.dumps(got, sort_keys=True) != json.dumps(want, sort_keys=True):
                    run.oracle_fail("payload encodes %s, arguments were %s" % (pl[:120], json.dumps(want)[:120]), desc)
            if i in mby:
                fields = jsonx.JObj([("id", s.get("id")), ("gas_limit", s.get("gas_limit")), ("reply_on", s.get("reply_on")),
                                     ("payload", s.get("payload") if m0.raw else pl.decode("utf-8", "replace"))])
                impl = ["ok", jsonx.show(jsonx.from_py(want_msg)), jsonx.show(fields)]
                mm = list(mby[i])
                # the model lists the fields in struct order id, gas_limit, reply_on, payload as well
                if mm[:1] != ["ok"] or mm[2] != impl[2] or json.dumps(json.loads(jsonx.to_text(jsonx.from_py(want_msg))), sort_keys=True) != json.dumps(want_msg, sort_keys=True):
                    run.disagree("sub-message builder", desc, mm, impl)
            # round trip: dispatch the eventual reply with the stamped id and payload
            for outcome in ("ok", "err"):
                m = method_for(g, outcome)
                if m is None:
                    continue
                data = None
                if outcome == "ok" and m.on == "success" and m.data is not None:
                    good = self.data_situations(m)[0]
                    data = b64(good[1])
                rop = {"prog": pi, "op": "reply", "id": s.get("id"), "payload": s.get("payload"), "gas_used": 5, "via": "dispatch",
                       "result": ({"ok": {"events": [], "data": data, "msg_responses": []}} if outcome == "ok" else {"err": "e"})}
                replies_ops.append(rop)
                replies_meta.append((pi, rid, g, m0, m, op, rop))
        robs = self.corpus.run(replies_ops) if replies_ops else []
        for (pi, rid, g, m0, m, op, rop), o in zip(replies_meta, robs):
            run.count()
            p = self.corpus.progs[pi]
            desc = {"prog": pi, "program": p.contract().rust_impl(), "builder": op, "reply": rop}
            a = o.get("res", {}).get("ok", {}).get("attrs", {}) if isinstance(o.get("res", {}).get("ok"), dict) else {}
            if a.get("handler") != m.name:
                run.oracle_fail("reply to the sub-message built by `%s` did not reach `%s`: %s" % (g["handler"], m.name, json.dumps(o.get("res"))[:200]), desc)
                continue
            got = [json.loads(x) for x in json.loads(a.get("payload", "[]"))]
            want = op["args"]
            if json.dumps(got, sort_keys=True) != json.dumps(want, sort_keys=True):
                run.oracle_fail("payload parameters after the round trip are %s, the builder was given %s" % (json.dumps(got)[:150], json.dumps(want)[:150]), desc)


def check(run, pid, module, theorems, replay=None, translated=None):
    if replay:
        data = json.load(open(replay))
        run.seed = data.get("seed", run.seed)
        run.tier = data.get("tier", run.tier)
    rng = random.Random(run.seed)
    thorough = run.tier == "thorough"
    preamble(run, module, theorems)
    if translated:
        # theorems about generated code translated from its templates (strengthening tie; the L1 / L2 runs below decide anyway)
        from . import libcommon
        libcommon.regen_imp(run)
        for mod, ths in (translated if isinstance(translated, list) else [translated]):
            run.prove(mod, ths, strengthening=True)
    run_l1(run, pid, rng, 1500 if thorough else 200)
    c = build_corpus(run, thorough)
    try:
        s = ReplySuite(run, c, rng, pid)
        s.fetch_ids()
        if pid in ("C07", "C09"):
            s.run_replies(thorough)
        if pid == "C08":
            s.run_builders(thorough)
    finally:
        c.cleanup()
    if replay:
        print("replayed seed=%s tier=%s: %d oracle failure(s)" % (run.seed, run.tier, len(run.oracle_failures)))
        for f in run.oracle_failures[:3]:
            print("  ", f["what"][:300])
        return 1 if run.oracle_failures else 0
