"""C08 - sub-message builders and reply dispatch agree on id, trigger and payload."""
from . import replyprops

THEOREMS = ["c08_distinct_ids", "c08_distinct_names_distinct_ids", "c08_id_finds_its_entry", "c08_trigger_covers_exactly_the_declared_outcomes", "c08_builder_stamps",
            "c08_builder_keeps_message_and_gas_limit", "c08_builder_on_plain_messages", "c08_payload_round_trip"]


def check(run, replay=None):
    run.rule = ("L1: reply id constants and builder methods (trigger, payload code, struct-update shape) of generated tables vs model and "
                "declared methods; L2: every builder on the three receivers (existing sub-message with/without gas limit, wasm message, "
                "cosmos message) with raw / one / several typed payload values, the returned sub-message compared field by field, then "
                "the eventual reply (stamped id and payload) dispatched and the delivered payload compared; non-trivial = distinct operation")
    return replyprops.check(run, "C08", "Props/C08", THEOREMS, replay,
                            translated=("Props/C08T", ["c08_translated_builder_on_sub_message", "c08_translated_builder_on_message"]))
