"""C15 - generated message types carry exactly the generic parameters they use."""
from . import msgprops

THEOREMS_T = ["c15_translated_visit_path", "c15_translated_each_parameter_once", "c15_translated_used_unused", "c15_translated_filter_wheres",
              "c15_translated_kept_bounds_mention_no_other_parameter", "c15_translated_emitters"]
THEOREMS = ["c15_parameters_are_exactly_those_used", "c15_each_parameter_once", "c15_used_and_unused_partition_the_declared_parameters",
            "c15_only_bounds_over_used_parameters_are_kept", "c15_parameters_mentioned_by_a_bound", "c15_enum_uses_these_lists"]


def check(run, replay=None):
    run.rule = ("L1: generated generic contracts (0..3 parameters, used directly, nested in Vec/Option/tuples/paths, only in a query response, "
                "unused; where-predicates over one or two parameters) and interfaces with associated types: generic parameter lists, kept "
                "where-predicates and dispatch parameters of every generated type vs the Coq model and vs occurrence computed from the "
                "signature; L2: generic corpus programs instantiated at concrete types, built, encoded, decoded and dispatched; "
                "non-trivial = distinct program / operation")
    return msgprops.check(run, "C15", "Props/C15", THEOREMS, {"c01": True, "c02": True}, replay,
                          translated=[("Props/C15T", THEOREMS_T),
                                      # the generics of the message type come out of the checker threaded through MsgVariants::new
                                      ("Props/C01V", ["c01_translated_variants_of_one_kind", "c01_translated_one_variant"]),
                                      # the hand model of the core theorems and the specification proved of the translated code agree
                                      ("Props/C15B", ["c15_hand_model_unused_generics_are_the_translated_ones",
                                                      "c15_hand_model_kept_bounds_are_the_translated_ones"])])
