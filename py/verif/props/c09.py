"""C09 - reply data is extracted according to the declared data mode."""
from . import replyprops

THEOREMS = ["c09_data_mode_table", "c09_success_handler_with_data", "c09_success_handler_without_marker"]


def check(run, replay=None):
    run.rule = ("all six data modes and the absent marker, crossed with data absent / well-formed / malformed envelope (real protobuf bytes "
                "built and corrupted by the harness) / inner data absent / malformed JSON / JSON of the wrong type, for data types u32, "
                "String and a struct; observation = echoed data parameter or error class and whether the handler's log moved; L1: which "
                "extraction block each success arm carries; non-trivial = distinct (program, reply)")
    return replyprops.check(run, "C09", "Props/C09", THEOREMS, replay,
                            translated=[("Props/C09T", ["c09_translated_raw_modes", "c09_translated_typed_modes", "c09_translated_instantiate_modes"]),
                                        # which handler's data field (hence data mode) an id gets: the entry's own, else the merged handler's
                                        ("Props/C07R", ["c07_translated_reply_entry_of_one_handler", "c07_translated_second_handler_of_a_reply_id"]),
                                        ("Props/C07B", ["c09_hand_model_merge_keeps_data_and_appends"])])
