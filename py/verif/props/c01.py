"""C01 - generated messages have the JSON shape named by the method signature."""
from . import msgprops

THEOREMS = ["c01_wire_name_is_method_name", "c01_contract_message_shape", "c01_interface_message_shape",
            "c01_contract_round_trip", "c01_interface_round_trip", "c01_accepted_names", "c01_other_names_rejected"]


def check(run, replay=None):
    run.rule = ("L1: generated contracts/interfaces expanded by the real macro, variant/field/constructor facts vs the Coq "
                "expansion model and vs the signature; L2: compiled corpus, every method of every part encoded with generated "
                "values (to_json_string), decoded back (from_json) by every part and the contract-level type; non-trivial = "
                "distinct (program, method, values) or distinct document")
    return msgprops.check(run, "C01", "Props/C01", THEOREMS, {"c01": True, "decode": True}, replay,
                          translated=[("Props/C01T", ["c01_translated_one_published_name_per_variant"]),
                                      ("Props/C01V", ["c01_translated_variants_of_one_kind", "c01_translated_selected_methods",
                                                     "c01_translated_from_items_to_variants", "c01_translated_selected_from_items",
                                                     "c01_translated_one_variant"]),
                                      ("Props/C01B", ["c01_hand_model_method_kind", "c01_hand_model_and_translated_code_select_the_same_methods"])])
