"""C02 - dispatch runs exactly the annotated handler with the sent arguments."""
from . import msgprops

THEOREMS = ["c02_contract_dispatch", "c02_interface_dispatch", "c02_fields_reach_parameters_by_name",
            "c02_struct_dispatch", "c02_no_other_handler", "c02_ctx_components"]


def check(run, replay=None):
    run.rule = ("L1: dispatch arms (variant -> method, argument order, post-processing) of generated programs vs model and "
                "signature; L2: echo handlers called through entry points, dispatch and the multitest Contract impl with random "
                "env/info/storage, Ok and Err outcomes; non-trivial = distinct (program, route, message, outcome)")
    # (the L2 run observes the context components through the real conversions whether or not the translated tie holds)
    return msgprops.check(run, "C02", "Props/C02", THEOREMS, {"c02": True}, replay,
                          translated=("Props/C02T", ["c02_translated_ctx_conversions", "c02_translated_dispatch_arm", "c02_translated_binder_is_argument", "c02_translated_one_arm_per_variant"]))
