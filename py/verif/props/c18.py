"""C18 - programs violating the documented constraints are rejected with a diagnostic."""
import copy
import json
import random
import re

from .. import common, translate, gen, l1, replies, rustc_batch
from ..prog import Contract, Interface, Method, Arg, P, PP, sv_msg, sv_attr, sv_msg_attr, sv_override, sv_features, sv_error, sv_custom, Attr
from . import replyprops

THEOREMS_T = ["c18_translated_attribute_parser", "c18_translated_second_msg_attribute_is_refused", "c18_translated_first_msg_attribute_wins",
              "c18_translated_variant_attr_on_struct_message_is_refused", "c18_translated_bare_payload_and_data",
              ]
THEOREMS_S = ["c18_translated_missing_or_duplicated_handler", "c18_translated_constructor_check", "c18_translated_constructor_verdicts",
              "c18_translated_reply_outcomes_exclude", "c18_translated_reply_outcome_names",
              "c18_regenerated_outcome_table_is_the_translated_function"]
THEOREMS = ["c18_missing_constructor", "c18_parameterised_constructor", "c18_no_instantiate", "c18_several_instantiate",
            "c18_several_migrate", "c18_interface_generics", "c18_interface_without_error_type", "c18_instantiate_inside_interface",
            "c18_migrate_inside_interface", "c18_bad_attribute_argument_is_reported", "c18_method_attribute_error_rejects_the_contract",
            "c18_item_attribute_error_rejects_the_contract", "c18_unknown_msg_attr_kind", "c18_unknown_override_kind",
            "c18_unknown_feature", "c18_reply_table_accepted_iff", "c18_accepted_tables_are_compatible",
            "c18_handler_names_sharing_a_constant_are_rejected"]

CONTRACT_EDITS = ["no_inst", "two_inst", "two_migrate", "no_new", "new_params", "bad_msg_kind", "bad_msg_attr_kind", "bad_override",
                  "bad_feature", "attr_on_inst", "sv_on_self", "sv_on_ctx", "double_msg", "double_error", "bad_reply_on"]
IFACE_EDITS = ["iface_generics", "iface_no_error", "iface_inst", "iface_migrate", "bad_msg_kind", "double_msg", "double_custom"]


def has_tuple_query_ret(p):
    for m in p.methods():
        if m.kind() == "query" and m.msg_attr()[2] is None:
            r = m.ret
            if r.kind == "path" and r.segs[0][1] and r.segs[0][1][0].kind != "path":
                return True
    return False


def expected_valid(p):
    """generated, unedited programs are valid except for two known generator artefacts the macro cannot process"""
    if has_tuple_query_ret(p):
        return False
    if isinstance(p, Interface) and any(n != "Error" and not b for n, b in p.assoc):
        return False
    return True


def apply_edit(rng, p, edit):
    p = copy.deepcopy(p)
    ms = p.methods()
    ret = P("StdResult", P("Response"))
    if edit == "no_inst":
        p.items = [m for m in p.items if not (isinstance(m, Method) and m.kind() == "instantiate")]
    elif edit == "two_inst":
        p.items.append(Method("second_init", [sv_msg("instantiate")], [], ret, ctx_ty="InstantiateCtx"))
    elif edit == "two_migrate":
        p.items = [m for m in p.items if not (isinstance(m, Method) and m.kind() == "migrate")]
        p.items.insert(rng.randint(0, len(p.items)), Method("mig_a", [sv_msg("migrate")], [], ret, ctx_ty="MigrateCtx"))
        p.items.insert(rng.randint(0, len(p.items)), Method("mig_b", [sv_msg("migrate")], [Arg("x", P("u8"))], ret, ctx_ty="MigrateCtx"))
    elif edit == "no_new":
        p.has_new = False
    elif edit == "new_params":
        p.new_params = "admin: String"
    elif edit == "bad_msg_kind":
        if not ms:
            return None
        m = rng.choice(ms)
        m.attrs = [sv_msg(rng.choice(["execute", "Exec", "init", "queries"])) if (a.sv and a.sv[0] == "msg") else a for a in m.attrs]
    elif edit == "bad_msg_attr_kind":
        p.attrs.insert(rng.randint(0, len(p.attrs)), sv_msg_attr(rng.choice(["execute", "Query", "all"]), "derive(Eq)"))
    elif edit == "bad_override":
        p.attrs.append(sv_override(rng.choice(["execute", "querry", "init"]), "crate::ep", "Msg"))
    elif edit == "bad_feature":
        p.attrs.append(sv_features([rng.choice(["reply", "Replies", "mt"])]))
    elif edit == "attr_on_inst":
        cand = [m for m in ms if m.kind() in ("instantiate", "migrate")]
        if not cand:
            return None
        rng.choice(cand).attrs.append(sv_attr("serde(rename = \"x\")"))
    elif edit in ("sv_on_self", "sv_on_ctx"):
        cand = [m for m in ms if m.kind() in ("exec", "query", "sudo")]
        if not cand:
            return None
        m = rng.choice(cand)
        (m.self_attrs if edit == "sv_on_self" else m.ctx_attrs).append(Attr(("sv", "attr"), "serde(default)", sv=("attr", "serde(default)")))
    elif edit == "double_msg":
        if not ms:
            return None
        m = rng.choice(ms)
        m.attrs.append(sv_msg(m.kind()))
    elif edit == "double_error":
        p.attrs = [a for a in p.attrs if not (a.sv and a.sv[0] == "error")] + [sv_error("ErrA"), sv_error("ErrB")]
    elif edit == "double_custom":
        p.attrs.append(sv_custom(msg="Empty", query="Empty"))
    elif edit == "bad_reply_on":
        p.items.append(Method("on_reply", [sv_msg("reply", reply_on="sometimes")], [Arg("r", P("SubMsgResult")), Arg("pl", P("Binary"))], ret, ctx_ty="ReplyCtx"))
        p.attrs.append(sv_features(["replies"]))
    elif edit == "iface_generics":
        p.generics = ["T"]
    elif edit == "iface_no_error":
        p.assoc = [(n, b) for n, b in p.assoc if n != "Error"]
    elif edit == "iface_inst":
        p.items.append(Method("init", [sv_msg("instantiate")], [], P("Result", P("Response"), PP("Self", "Error")), ctx_ty="InstantiateCtx"))
    elif edit == "iface_migrate":
        p.items.append(Method("mig", [sv_msg("migrate")], [], P("Result", P("Response"), PP("Self", "Error")), ctx_ty="MigrateCtx"))
    else:
        raise ValueError(edit)
    return p


# programs compiled for real: (name, source, expected fragment of the error text, the line the error must point at contains)
def rustc_cases():
    pre = ("#![allow(unused_imports, unused_variables, dead_code)]\nuse svfw::cw_std::{Response, StdError, StdResult, Binary, SubMsgResult};\n"
           "use svfw::ctx::{ExecCtx, InstantiateCtx, QueryCtx, SudoCtx, ReplyCtx, MigrateCtx};\npub struct Ctr;\n")
    inst = "    #[sv::msg(instantiate)] pub fn instantiate(&self, ctx: InstantiateCtx) -> StdResult<Response> { Ok(Response::new()) }\n"
    new = "    pub const fn new() -> Self { Self }\n"

    def c(body, attrs=""):
        return pre + "#[svfw::contract]\n" + attrs + "impl Ctr {\n" + body + "}\nfn main() {}\n"
    cases = [
        ("valid", c(new + inst), None, None),
        ("no_inst", c(new + "    #[sv::msg(exec)] pub fn go(&self, ctx: ExecCtx) -> StdResult<Response> { Ok(Response::new()) }\n"),
         "Missing instantiation message", "impl Ctr"),
        ("two_inst", c(new + inst + "    #[sv::msg(instantiate)] pub fn second(&self, ctx: InstantiateCtx) -> StdResult<Response> { Ok(Response::new()) }\n"),
         "More than one instantiation or migration message", "fn "),
        ("no_new", c(inst), "Missing `new` method", "impl Ctr"),
        ("new_params", c("    pub const fn new(admin: u32) -> Self { Self }\n" + inst), "Parameters not allowed in `new` method", "fn new"),
        ("bad_kind", c(new + inst + "    #[sv::msg(execute)] pub fn go(&self, ctx: ExecCtx) -> StdResult<Response> { Ok(Response::new()) }\n"),
         "Invalid message type", "sv::msg(execute)"),
        ("dup_reply", c(new + inst +
                        "    #[sv::msg(reply, handlers=[h], reply_on=success)] fn a(&self, ctx: ReplyCtx, p: u32) -> StdResult<Response> { Ok(Response::new()) }\n"
                        "    #[sv::msg(reply, handlers=[h], reply_on=success)] fn b(&self, ctx: ReplyCtx, p: u32) -> StdResult<Response> { Ok(Response::new()) }\n",
                        "#[sv::features(replies)]\n"), "Duplicated reply handler", "handlers=[h]"),
        ("payload_mismatch", c(new + inst +
                               "    #[sv::msg(reply, handlers=[h], reply_on=success)] fn a(&self, ctx: ReplyCtx, p: u32) -> StdResult<Response> { Ok(Response::new()) }\n"
                               "    #[sv::msg(reply, handlers=[h], reply_on=error)] fn b(&self, ctx: ReplyCtx, e: String, p: u64) -> StdResult<Response> { Ok(Response::new()) }\n",
                               "#[sv::features(replies)]\n"), "Mismatched parameter in reply handlers", "fn a"),
        ("data_on_error", c(new + inst +
                            "    #[sv::msg(reply, reply_on=error)] fn b(&self, ctx: ReplyCtx, #[sv::data(raw)] e: String, p: u64) -> StdResult<Response> { Ok(Response::new()) }\n",
                            "#[sv::features(replies)]\n"), "Wrong usage of `#[sv::data]` attribute", "fn b"),
        ("no_payload", c(new + inst +
                         "    #[sv::msg(reply, reply_on=error)] fn b(&self, ctx: ReplyCtx, e: String) -> StdResult<Response> { Ok(Response::new()) }\n",
                         "#[sv::features(replies)]\n"), "Missing payload parameter", "fn b"),
        ("iface_generics", pre + "#[svfw::interface]\npub trait Iface<T> {\n    type Error: From<StdError>;\n    #[sv::msg(exec)] fn go(&self, ctx: ExecCtx, t: T) -> Result<Response, Self::Error>;\n}\nfn main() {}\n",
         "Generics on traits are not supported", "trait Iface"),
        ("iface_no_error", pre + "#[svfw::interface]\npub trait Iface {\n    #[sv::msg(exec)] fn go(&self, ctx: ExecCtx) -> StdResult<Response>;\n}\nfn main() {}\n",
         "Missing `Error` type defined for trait", "trait Iface"),
        ("iface_inst", pre + "#[svfw::interface]\npub trait Iface {\n    type Error: From<StdError>;\n    #[sv::msg(instantiate)] fn init(&self, ctx: InstantiateCtx) -> Result<Response, Self::Error>;\n}\nfn main() {}\n",
         "The message attribute `instantiate` is not supported in interfaces", "fn init"),
        ("entry_points_generics", pre.replace("pub struct Ctr;", "pub struct Ctr<T>(std::marker::PhantomData<T>);") +
         "#[svfw::entry_points]\n#[svfw::contract]\nimpl<T> Ctr<T> where T: 'static {\n    pub const fn new() -> Self { Self(std::marker::PhantomData) }\n" + inst + "}\nfn main() {}\n",
         "Missing concrete types", "entry_points"),
    ]
    return cases


def check(run, replay=None):
    if replay:
        data = json.load(open(replay))
        run.seed, run.tier = data.get("seed", run.seed), data.get("tier", run.tier)
    rng = random.Random(run.seed)
    thorough = run.tier == "thorough"
    run.rule = ("L1: every generated valid contract/interface and each of its single rule-breaking edits (15 contract rules, 7 interface "
                "rules) expanded by the real macro: accepted/rejected vs the Coq model and vs the edit planted; reply tables: generated "
                "valid tables and one-edit neighbours (duplicate outcome, always plus another, payload length/type mismatch, data on "
                "error / not first, no payload, raw plus more, instantiate+raw) vs the model and vs the rule stated in Python; rustc: a batch "
                "of invalid programs really compiled, error text and the line the error points at; non-trivial = distinct program")
    replyprops.preamble(run, "Props/C18", THEOREMS)
    # strengthening tie: the attribute parser and StructMessage::new translated from the source (GenImpParse.v, GenImpAttr.v)
    from . import libcommon
    libcommon.regen_imp(run)
    run.prove("Props/C18T", THEOREMS_T, strengthening=True)
    run.prove("Props/C18S", THEOREMS_S, strengthening=True)       # struct_msg.rs / parser/mod.rs (separate translations)
    run.prove("Props/C07R", ["c18_translated_missing_payload_parameter", "c18_translated_mismatched_payload_types_are_reported"], strengthening=True)
    run.prove("Props/C07B", ["c18_hand_model_excludes_is_the_translated_one", "c18_hand_model_type_mismatches_are_the_translated_ones"],
              strengthening=True)   # reply.rs ReplyData::new
    # ---- contracts / interfaces with planted edits
    g = gen.ProgGen(rng)
    progs, metas = [], []
    for i in range(700 if thorough else 80):
        base = g.gen_contract() if i % 3 else g.gen_iface()
        progs.append(base)
        metas.append(None)
        edits = CONTRACT_EDITS if isinstance(base, Contract) else IFACE_EDITS
        for e in (edits if thorough else rng.sample(edits, 3)):
            q = apply_edit(rng, base, e)
            if q is not None:
                progs.append(q)
                metas.append(e)
    res, err = l1.run_programs(progs, tag="c18")
    if err:
        run.translator_error("L1 model evaluation failed: " + err)
    for p, e, r in zip(progs, metas, res):
        run.count()
        text = p.rust_impl() if isinstance(p, Contract) else p.rust_trait()
        desc = {"level": "L1", "program": text, "edit": e}
        st = r["facts"].status
        run.dist("edit=%s:%s" % (e, st))
        run.nontriv(("c18", text))
        if e is not None:
            if st == "accepted":
                run.oracle_fail("a program breaking the rule `%s` is accepted by the macro" % e, desc)
        elif expected_valid(p) and st != "accepted":
            run.oracle_fail("a program breaking no rule is rejected: %s" % (r["facts"].one("panic") or r["facts"].one("compile_error") or "")[:200], desc)
        if r["model"] is not None and r["model"][:1] != r["impl"][:1]:
            run.disagree("accepted / rejected", desc, r["model"][:1], r["impl"][:1])
    run.programs += len(progs)
    # ---- reply tables
    replyprops.run_l1(run, "C18", rng, 3000 if thorough else 300, valid_bias=0.45)
    # ---- rustc
    cases = rustc_cases()
    files = {n: src for n, src, _, _ in cases}
    res = rustc_batch.compile_batch(files, tag="c18")
    for n, src, frag, where in cases:
        run.count()
        run.nontriv(("rustc", n))
        errs = res[n]
        desc = {"level": "rustc", "case": n, "program": src}
        run.dist("rustc:%s:%s" % (n, "error" if errs else "compiles"))
        if frag is None:
            if errs:
                run.oracle_fail("a valid program does not compile: %s" % errs[0]["message"][:200], desc)
            continue
        if not errs:
            run.oracle_fail("a program breaking the rule `%s` compiles" % n, desc)
            continue
        hit = [e for e in errs if frag in e["message"] or frag in e["rendered"]]
        if not hit:
            run.oracle_fail("the rule `%s` is reported as `%s`, expected a diagnostic saying `%s`" % (n, errs[0]["message"][:160], frag), desc)
            continue
        line = hit[0]["line"]
        lines = src.splitlines()
        if line is None or not (1 <= line <= len(lines)) or where not in lines[line - 1]:
            # the span may cover several lines: accept the offence within the two following lines as well
            ctx = "\n".join(lines[(line or 1) - 1:(line or 1) + 2]) if line else ""
            if where not in ctx:
                run.oracle_fail("the diagnostic for `%s` points at line %s (`%s`), expected the line with `%s`" % (
                    n, line, lines[line - 1].strip()[:80] if line and line <= len(lines) else "?", where), desc)
    if replay:
        print("replayed seed=%s tier=%s: %d oracle failure(s)" % (run.seed, run.tier, len(run.oracle_failures)))
        return 1 if run.oracle_failures else 0
