"""C10 - remote helpers build messages the target contract accepts and routes identically."""
import base64
import json
import random

from .. import common, libdiff, jsonx
from ..common import coq_string, coq_list
from . import libcommon

THEOREMS = ["c10_body_routes_to_the_same_method", "c10_executor_builder", "c10_instantiate_builder"]
THEOREMS_T = ["c10_translated_instantiate_builder", "c10_translated_builder_setters", "c10_translated_executor_path",
              "c10_translated_admin_helpers", "c10_translated_bound_querier"]

STR = ["", "a", "owner1", "quo\"te", "x y", "unié", "long" * 20]


def coin(rng):
    return {"denom": rng.choice(["uatom", "ujuno", "aaa", "zzz", "uatom"]), "amount": str(rng.choice([0, 1, 5, 10 ** 12]))}


def funds(rng):
    return [coin(rng) for _ in range(rng.choice([0, 1, 1, 2, 3]))]


EXEC = {
    "contract": [("bump", lambda r: [r.choice([0, 1, 4294967295]), r.choice([None] + STR)]),
                 ("set_owner", lambda r: [r.choice(STR)]),
                 ("foo1_bar", lambda r: [r.randint(0, 2 ** 64 - 1), r.randint(0, 99)]),
                 ("wide", lambda r: [r.randint(0, 2 ** 32 - 1) for _ in range(11)])],
    "contract_as_iface": [("poke", lambda r: [r.randint(0, 2 ** 32 - 1)]), ("poke2", lambda r: [r.choice(STR), r.choice(STR)]),
                          ("stage_2_poke", lambda r: [r.randint(0, 2 ** 32 - 1)]),
                          ("wide_poke", lambda r: [r.randint(0, 2 ** 32 - 1) for _ in range(10)])],
    "dyn": [("poke", lambda r: [r.randint(0, 2 ** 32 - 1)]), ("poke2", lambda r: [r.choice(STR), r.choice(STR)]),
            ("stage_2_poke", lambda r: [r.randint(0, 2 ** 32 - 1)]),
            ("wide_poke", lambda r: [r.randint(0, 2 ** 32 - 1) for _ in range(10)])],
}
# the name the message of a method serialises under (serde's rule on the variant), where it differs from the method name
WIRE = {"stage_2_poke": "stage2_poke"}
QUERY = {
    "contract": [("value", lambda r: []), ("sum", lambda r: [r.randint(0, 2 ** 32 - 1), r.randint(0, 9)])],
    "borrowed": [("value", lambda r: []), ("sum", lambda r: [r.randint(0, 2 ** 32 - 1), r.randint(0, 9)])],
    "contract_as_iface": [("peek", lambda r: []), ("peek_at", lambda r: [r.randint(0, 2 ** 32 - 1), r.choice(STR)]),
                          ("peek_a_b", lambda r: [r.randint(0, 2 ** 32 - 1)])],
    "dyn": [("peek", lambda r: []), ("peek_at", lambda r: [r.randint(0, 2 ** 32 - 1), r.choice(STR)]),
            ("peek_a_b", lambda r: [r.randint(0, 2 ** 32 - 1)])],
}
ARGNAMES = {"bump": ["by", "memo"], "set_owner": ["owner"], "foo1_bar": ["a", "b"], "poke": ["n"], "poke2": ["a", "b"],
            "value": [], "sum": ["a", "b"], "peek": [], "peek_at": ["idx", "tag"], "stage_2_poke": ["n"], "peek_a_b": ["idx"],
            "wide": ["w%d" % i for i in range(1, 12)], "wide_poke": ["p%d" % i for i in range(1, 11)]}


def js(v):
    return json.dumps(v, separators=(",", ":"), ensure_ascii=False)


def check(run, replay=None):
    libcommon.replay_setup(run, replay)
    rng = random.Random(run.seed)
    thorough = run.tier == "thorough"
    run.rule = ("every exec/query helper of a contract and of an interface (handle typed by the contract, by the contract used as "
                "interface, by dyn Interface, and a borrowed querier) with random arguments, addresses and sequences of with_funds; the "
                "built body is delivered to the target's real execute entry point / answered by its real query entry point; "
                "InstantiateBuilder with every order of label/admin/funds setters, with and without salt; admin helpers; "
                "non-trivial = distinct operation")
    libcommon.preamble(run, "Props/C10", THEOREMS, needs=())
    # tie by translation of builder/instantiate.rs; when not established, more builder sessions are compared below
    tie = run.prove("Props/C10T", THEOREMS_T, strengthening=True)
    n = 40 if thorough else 8
    ops, meta = [], []
    addrs = ["target", "cosmos1abc", "", "a b"]
    for ty, methods in EXEC.items():
        for name, gen in methods:
            for _ in range(n):
                steps = [funds(rng) for _ in range(rng.choice([0, 1, 1, 2, 3]))]
                op = {"op": "remote_exec", "ty": ty, "method": name, "args": gen(rng), "addr": rng.choice(addrs), "funds_steps": steps}
                ops.append(op)
                meta.append(("exec", op))
    for ty, methods in QUERY.items():
        for name, gen in methods:
            for _ in range(n):
                op = {"op": "remote_query", "ty": ty, "method": name, "args": gen(rng), "addr": rng.choice(addrs)}
                ops.append(op)
                meta.append(("query", op))
    # instantiate builder: all orders of setters
    for _ in range(60 if thorough else (25 if tie else 150)):
        steps = []
        for _ in range(rng.choice([0, 1, 2, 3, 4, 5])):
            k = rng.choice(["label", "admin", "funds"])
            steps.append([k, funds(rng) if k == "funds" else rng.choice(STR)])
        op = {"op": "instantiate_builder", "code_id": rng.choice([0, 1, 2 ** 64 - 1]), "start": rng.randint(0, 9), "name": rng.choice(STR),
              "steps": steps}
        if rng.random() < 0.5:
            op["salt"] = rng.choice(["", "salt", "s" * 64])
        ops.append(op)
        meta.append(("inst", op))
    for a in addrs:
        for adm in STR[:4]:
            op = {"op": "remote_admin", "ty": rng.choice(["contract", "dyn"]), "addr": a, "admin": adm}
            ops.append(op)
            meta.append(("admin", op))
    obs = libdiff.run(ops, tag="c10")
    # model: builders
    exprs, eidx = [], []
    for i, (kind, op) in enumerate(meta):
        if kind == "inst" and jsonx.coq_safe(jsonx.from_py(op)):
            # (serde_json::to_value orders object keys; the opaque funds value is given to the model in that order)
            steps = coq_list([("(IBFunds %s)" % jsonx.to_coq(jsonx.from_py([dict(sorted(c.items())) for c in v]))) if k == "funds" else "(IB%s %s)" % (k.capitalize(), coq_string(v))
                              for k, v in op["steps"]])
            body = base64.b64encode(js({"start": op["start"], "name": op["name"]}).encode()).decode()
            salt = "None" if "salt" not in op else "(Some (JStr %s))" % coq_string(base64.b64encode(op["salt"].encode()).decode())
            exprs.append("[show_json (ib_build (fold_left ib_apply %s (ib_new (JStr %s) (JNum (%d)%%Z))) %s)]" % (steps, coq_string(body), op["code_id"], salt))
            eidx.append(i)
    model = libcommon.model_eval(run, exprs, "c10")
    mby = dict(zip(eidx, model)) if model is not None else {}
    for i, ((kind, op), o) in enumerate(zip(meta, obs)):
        run.count()
        run.nontriv(json.dumps(op, sort_keys=True))
        desc = {"operation": op}
        if o.get("panicked"):
            run.oracle_fail("helper panicked", desc)
            continue
        if kind == "exec":
            run.dist("exec:%s:%s" % (op["ty"], op["method"]))
            want_funds = op["funds_steps"][-1] if op["funds_steps"] else []
            if "attrs" not in o:
                run.oracle_fail("the body built by the executor helper is not accepted / fails at the target: %s" % json.dumps(o)[:300], desc)
                continue
            if o.get("contract_addr") != op["addr"]:
                run.oracle_fail("execute message addressed to %r, handle points to %r" % (o.get("contract_addr"), op["addr"]), desc)
            if o.get("funds") != want_funds:
                run.oracle_fail("execute message carries funds %s, builder was given %s" % (js(o.get("funds")), js(want_funds)), desc)
            a = o["attrs"]
            if a.get("handler") != op["method"]:
                run.oracle_fail("helper for `%s` reached handler `%s`" % (op["method"], a.get("handler")), desc)
            else:
                got = [json.loads(x) for x in json.loads(a.get("args", "[]"))]
                if got != op["args"]:
                    run.oracle_fail("handler `%s` received %s, helper was called with %s" % (op["method"], js(got), js(op["args"])), desc)
            if json.loads(a.get("funds", "[]")) != want_funds:
                run.oracle_fail("handler saw funds %s, builder was given %s" % (a.get("funds"), js(want_funds)), desc)
            body = jsonx.parse(o.get("body", "null"))
            expect = jsonx.JObj([(WIRE.get(op["method"], op["method"]), jsonx.JObj(list(zip(ARGNAMES[op["method"]], [jsonx.from_py(x) for x in op["args"]]))))])
            if body != expect:
                run.oracle_fail("body is %s, expected %s" % (o.get("body", "")[:200], jsonx.to_text(expect)[:200]), desc)
            if i % 53 == 0:
                run.sample({"helper": "%s.%s" % (op["ty"], op["method"]), "args": op["args"], "body": o.get("body", "")[:120]})
        elif kind == "query":
            run.dist("query:%s:%s" % (op["ty"], op["method"]))
            seen = o.get("seen", [])
            if len(seen) != 1 or "contract_addr" not in seen[0]:
                run.oracle_fail("query helper issued %s, expected exactly one smart query" % json.dumps(seen)[:300], desc)
                continue
            if seen[0]["contract_addr"] != op["addr"]:
                run.oracle_fail("smart query addressed to %r, handle points to %r" % (seen[0]["contract_addr"], op["addr"]), desc)
            if "ok" not in o:
                run.oracle_fail("query helper failed: %s" % o.get("err", "")[:300], desc)
                continue
            if o["ok"].get("handler") != op["method"]:
                run.oracle_fail("query helper for `%s` was answered by `%s`" % (op["method"], o["ok"].get("handler")), desc)
            elif [json.loads(x) for x in o["ok"].get("args", [])] != op["args"]:
                run.oracle_fail("query handler `%s` received %s, helper was called with %s" % (op["method"], o["ok"].get("args"), js(op["args"])), desc)
        elif kind == "inst":
            run.dist("instantiate_builder:steps=%d:salt=%s" % (len(op["steps"]), "salt" in op))
            if "ok" not in o:
                run.oracle_fail("instantiate builder failed: %s" % json.dumps(o)[:200], desc)
                continue
            tag = "instantiate2" if "salt" in op else "instantiate"
            m = o["ok"].get(tag)
            if m is None:
                run.oracle_fail("builder produced %s, expected a %s message" % (list(o["ok"].keys()), tag), desc)
                continue
            last = {"label": None, "admin": None, "funds": []}
            for k, v in op["steps"]:
                last[k] = v
            want = {"admin": last["admin"], "code_id": op["code_id"], "label": last["label"] or "", "funds": last["funds"],
                    "msg": base64.b64encode(js({"start": op["start"], "name": op["name"]}).encode()).decode()}
            if "salt" in op:
                want["salt"] = base64.b64encode(op["salt"].encode()).decode()
            for k, v in want.items():
                if m.get(k) != v:
                    run.oracle_fail("instantiate message has %s = %s, expected %s" % (k, js(m.get(k))[:200], js(v)[:200]), desc)
            if i in mby:
                impl = jsonx.from_py({tag: {k: m.get(k) for k in ["admin", "code_id", "msg", "funds", "label"] + (["salt"] if "salt" in op else [])}})
                if mby[i] != [jsonx.show(impl)]:
                    run.disagree("instantiate builder", desc, mby[i], jsonx.show(impl))
        else:
            up, cl = o.get("update", {}), o.get("clear", {})
            if up != {"update_admin": {"contract_addr": op["addr"], "admin": op["admin"]}}:
                run.oracle_fail("update_admin helper built %s" % json.dumps(up)[:200], desc)
            if cl != {"clear_admin": {"contract_addr": op["addr"]}}:
                run.oracle_fail("clear_admin helper built %s" % json.dumps(cl)[:200], desc)
    run.programs = 2
    return libcommon.replay_finish(run, replay)
