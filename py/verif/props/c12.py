"""C12 - multitest proxies are equivalent to sending the raw JSON message."""
import json
import random

from . import libcommon
from .. import common, translate, gen, corpus
from ..gen import gen_value, NF_CLASSES

THEOREMS = ["c12_proxy_call_is_the_raw_operation", "c12_histories_agree", "c12_handler_error_surfaces_unchanged"]
THEOREMS_T = ["c12_translated_exec_proxy_sends_the_raw_request", "c12_translated_migrate_proxy_sends_the_raw_request",
              "c12_translated_downcast_error", "c12_translated_generated_instantiate_options",
              "c12_translated_generated_instantiate_call", "c12_translated_generated_instantiate2_call",
              "c12_translated_generated_exec_path", "c12_translated_generated_query_sudo_migrate",
              "c12_translated_generated_interface_methods_same"]


def build(run, thorough):
    crng = random.Random(run.seed * 31337 + (5 if thorough else 4))
    progs = []
    while len(progs) < (14 if thorough else 5):
        # (every second contract has its own error type; every instantiate message has a String argument, through which a
        #  history can make the handler fail with a StdError or with the contract's own error)
        p = gen.gen_l2_program(crng, name_classes=NF_CLASSES, error=("custom" if len(progs) % 2 else None))
        inst = [m for m in p.methods if m.kind == "instantiate"][0]
        if not any(a.ty.rust() == "String" for a in inst.args):
            inst.args.append(gen.Arg("memo_s", gen.P("String")))
        progs.append(p)
    c = corpus.Corpus(progs, tag="mt_%s" % ("t" if thorough else "q"), mt=True).build()
    return c


# funds of exec calls: none, one coin, more than the balance, several coins NOT in denom order, a zero amount, a repeated denom
EXEC_FUNDS = [[], [], [{"denom": "ujuno", "amount": "3"}], [{"denom": "uatom", "amount": "2000"}],
              [{"denom": "ujuno", "amount": "3"}, {"denom": "uatom", "amount": "1"}],
              [{"denom": "uatom", "amount": "0"}], [{"denom": "ujuno", "amount": "2"}, {"denom": "uatom", "amount": "0"}],
              [{"denom": "uatom", "amount": "1"}, {"denom": "uatom", "amount": "2"}]]


def js(v):
    return json.dumps(v, separators=(",", ":"), ensure_ascii=False)


def gen_history(rng, p):
    steps = []
    parts = [("contract", None)] + [("i%d" % k, i) for k, i in enumerate(p.ifaces)]
    inst = [m for m in p.methods if m.kind == "instantiate"][0]

    def vals(m, iface, fail=False):
        out = []
        for a in m.args:
            t = p.concretize(a.ty, iface)
            v = gen_value(rng, t)
            if fail and t.rust() == "String":
                # a StdError, or (contracts with their own error type) a value of that type
                v = "__failcustom__" if (p.error == "custom" and rng.random() < 0.5) else "__fail__"
            out.append(v)
        return out

    def mk_inst():
        # a failing instantiate handler (with and without salt): its error must surface through the proxy unchanged
        v = vals(inst, None, fail=rng.random() < 0.2)
        st = {"k": "inst", "args": v, "json": js(dict(zip([a.name for a in inst.args], v))), "sender": rng.randint(0, 2),
              "funds": rng.choice([[], [], [{"denom": "uatom", "amount": "5"}], [{"denom": "uatom", "amount": "7"}, {"denom": "ujuno", "amount": "1"}]])}
        if rng.random() < 0.5:
            st["label"] = rng.choice(["my label", "", "L2"])
        if rng.random() < 0.5:
            st["admin"] = rng.randint(0, 2)
        if rng.random() < 0.35:
            st["salt"] = rng.choice(["s", "salt-%d" % rng.randint(0, 9), "salt-%d" % rng.randint(0, 9), ""])   # incl. the empty salt, which the chain refuses
        return st
    steps.append(mk_inst())
    n_inst = 1
    for _ in range(rng.randint(3, 11)):
        r = rng.random()
        if r < 0.1:
            steps.append(mk_inst())
            n_inst += 1
            continue
        if r < 0.2 and any(m.kind == "migrate" for m in p.methods):
            m = [m for m in p.methods if m.kind == "migrate"][0]
            v = vals(m, None)
            steps.append({"k": "migrate", "args": v, "json": js(dict(zip([a.name for a in m.args], v))), "sender": rng.randint(0, 2),
                          "target": rng.randrange(n_inst), "funds": []})
            continue
        part, iface = rng.choice(parts)
        ms = [m for m in (p.methods if iface is None else iface.methods) if m.kind in ("exec", "query", "sudo")]
        if not ms:
            continue
        m = rng.choice(ms)
        fail = rng.random() < 0.15
        v = vals(m, iface, fail)
        body = dict(zip([a.name for a in m.args], v))
        st = {"k": m.kind, "part": part, "method": m.name, "args": v, "json": js({m.name: body}), "sender": rng.randint(0, 2),
              "target": rng.randrange(n_inst),
              "funds": rng.choice(EXEC_FUNDS) if m.kind == "exec" else []}
        steps.append(st)
    return steps


def check(run, replay=None):
    if replay:
        data = json.load(open(replay))
        run.seed, run.tier = data.get("seed", run.seed), data.get("tier", run.tier)
    rng = random.Random(run.seed)
    thorough = run.tier == "thorough"
    run.rule = ("compiled contracts with echo handlers (own methods and interfaces, generic and not, std and custom error types); for each, "
                "random histories of 4..12 calls (instantiate with label/admin/funds/salt options, exec with funds incl. more than the "
                "balance, query, sudo, migrate by admin and non-admin, failing handlers) issued through the generated proxies on one "
                "chain and as raw JSON (built from the method signature) on a second identically seeded chain; after every step the "
                "result (events, data, error text) and the state (storage dump, contract info, balances) are compared; "
                "non-trivial = distinct (program, history)")
    translate.regen_tables(run)
    run.hygiene()
    run.prove("Props/C12", THEOREMS)
    # tie by translation of sylvia/src/multitest.rs (ExecProxy, MigrateProxy, downcast_error); when it is not established
    # twice as many histories are compared below
    libcommon.regen_imp(run)
    tie = run.prove("Props/C12T", THEOREMS_T, strengthening=True)
    c = build(run, thorough)
    try:
        ops, metas = [], []
        for pi, p in enumerate(c.progs):
            if "__rejected" in c.names[pi]:
                continue
            # skip programs whose messages carry renamed / aliased wire names (the raw JSON is built from the signature)
            for _ in range(30 if thorough else (16 if tie else 32)):
                h = gen_history(rng, p)
                ops.append({"prog": pi, "op": "history", "steps": h})
                metas.append((pi, h))
        obs = c.run(ops)
        for (pi, h), o in zip(metas, obs):
            p = c.progs[pi]
            run.count()
            run.nontriv(("hist", pi, js(h)))
            desc = {"prog": pi, "history": h}
            if isinstance(o, dict) and o.get("panicked"):
                run.oracle_fail("history panicked: %s" % o.get("msg", "")[:200], dict(desc, program=describe(p)))
                continue
            if not isinstance(o, list) or len(o) != len(h):
                run.oracle_fail("history returned %s observations for %d steps" % (len(o) if isinstance(o, list) else o, len(h)), dict(desc, program=describe(p)))
                continue
            for si, (st, ob) in enumerate(zip(h, o)):
                run.count()
                kind = st["k"]
                if "skipped" in ob or "error" in ob:
                    run.dist("step:%s:skipped" % kind)
                    continue
                a, b = ob.get("a", {}), ob.get("b", {})
                run.dist("step:%s:%s" % (kind, "ok" if "ok" in a else "err"))
                d2 = {"prog": pi, "program": describe(p), "history": h[:si + 1], "step": st}
                if ("ok" in a) != ("ok" in b):
                    run.oracle_fail("step %d (%s): the proxy call %s, the raw JSON call %s: %s vs %s" % (
                        si, kind, "succeeds" if "ok" in a else "fails", "succeeds" if "ok" in b else "fails", js(a)[:200], js(b)[:200]), d2)
                    break
                if "ok" in a and js(a["ok"]) != js(b["ok"]):
                    run.oracle_fail("step %d (%s): results differ: proxy %s, raw JSON %s" % (si, kind, js(a["ok"])[:250], js(b["ok"])[:250]), d2)
                    break
                if "err" in a:
                    ea, eb = a["err"], b["err"]
                    # the proxy returns the contract's error value; the raw chain reports the same error at the root of its chain of causes
                    handler_error = "handler " in eb and " failed" in eb or "custom failure in" in eb
                    # an error of the chain itself (bank, label, authorization) is reported with the chain's context on one side
                    # and by its root cause on the other: only that both fail is compared there
                    if handler_error and not (ea == eb or ea in eb or eb in ea):
                        run.oracle_fail("step %d (%s): errors differ: proxy `%s`, raw JSON `%s`" % (si, kind, ea[:200], eb[:200]), d2)
                        break
                if js(ob.get("state_a")) != js(ob.get("state_b")):
                    sa, sb = ob.get("state_a", {}), ob.get("state_b", {})
                    what = "balances" if js(sa.get("users")) != js(sb.get("users")) else "contract storage / info"
                    run.oracle_fail("step %d (%s): chain states differ after the call (%s): %s vs %s" % (
                        si, kind, what, js(sa)[:300], js(sb)[:300]), d2)
                    break
        run.programs = len(c.progs)
    finally:
        c.cleanup()
    if not replay:
        # both chains of the differential run share the generated `impl cw_multi_test::Contract`; what each of its six
        # operations decodes / which registered override it calls is examined on the expansion itself
        from . import mtimpl
        mtimpl.run_cases(run, mtimpl.sample_cases(rng, 64 if thorough else 24), "c12mt")
    if replay:
        print("replayed seed=%s tier=%s: %d oracle failure(s)" % (run.seed, run.tier, len(run.oracle_failures)))
        return 1 if run.oracle_failures else 0


def describe(p):
    txt = p.to_contract().rust_impl()
    for i in p.ifaces:
        txt += "\n" + p.to_iface(i).rust_trait()
    return txt
