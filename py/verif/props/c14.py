"""C14 - behaviour does not depend on the order of declarations."""
import copy
import json
import random

from .. import common, translate, gen, l1, replies
from ..prog import Contract, Interface, Method
from . import replyprops, msgprops

THEOREMS = ["c14_published_names", "c14_same_variants", "c14_encoding", "c14_decoding", "c14_dispatch_target", "c14_entry_point_set",
            "c14_reply_acceptance", "c14_reply_names", "c14_reply_routing"]
THEOREMS_T = ["c14_translated_repeatable_attributes_are_collected_in_order", "c14_translated_reordering_attributes_permutes_the_collected"]


def permute(rng, p):
    q = copy.deepcopy(p)
    rng.shuffle(q.items)
    # repeatable attributes: sv::messages, sv::override_entry_point, sv::msg_attr of different kinds
    idx = [i for i, a in enumerate(q.attrs) if a.sv and a.sv[0] in ("messages", "override")]
    vals = [q.attrs[i] for i in idx]
    rng.shuffle(vals)
    for i, v in zip(idx, vals):
        q.attrs[i] = v
    # the position of `sv::msg` among the attributes of its method (before / between / after `sv::attr` and foreign ones;
    # the relative order of the others - which is the order of the forwarded attributes - stays)
    for m in q.items:
        if isinstance(m, Method) and len(m.attrs) > 1 and rng.random() < 0.5:
            k = next((i for i, a in enumerate(m.attrs) if a.sv and a.sv[0] == "msg"), None)
            if k is not None:
                a = m.attrs.pop(k)
                m.attrs.insert(rng.randint(0, len(m.attrs)), a)
    return q


def obs_of(lines):
    """order-free observation of an expansion: per type the set of variants with fields/attrs/arms, tables, wrapper parts"""
    out, raw, decl = {}, {}, {}
    for l in lines:
        k, _, v = l.partition("=")
        if k.endswith(" variants") and k.startswith("enum "):
            out[k] = tuple(sorted(x for x in v.split(",") if x))
        elif k.endswith(" ctors"):
            out[k] = tuple(sorted(v.split(",")))
        elif k.endswith(" generics") or k.endswith(" dispatch_generics"):
            out[k] = tuple(sorted(v.split(",")))            # parameter order is first-use order: not claimed
        elif k.startswith("wrapper ") and (k.endswith(" variants") or k.endswith(" tables") or k.endswith(" bridged")):
            out[k] = tuple(sorted(v.split(",")))            # one part per interface; their order follows the attributes
        elif k.startswith("wrapper ") and (k.endswith(" schema") or k.endswith(" responses")):
            how, _, parts = v.partition(":")
            out[k] = (how, tuple(sorted(parts.split(","))))  # any_of / union over the parts: a set
        elif k.startswith("api "):
            # the alias of a message type: which type, with which parameters (as a set; their order is first-use order and
            # is only required to be the order the type itself declares - see `consistent` below)
            ty, _, args = v.partition(":")
            out[k] = (ty, tuple(sorted(a for a in args.split(",") if a)))
            raw[k] = [a for a in args.split(",") if a] if not v.startswith("?") else None
        else:
            out[k] = v
        if k.endswith(" generics"):
            decl[k.split()[1]] = [a for a in v.split(",") if a]
    for k, args in raw.items():
        ty = out[k][0]
        if args is not None and ty in decl:
            out[k + " consistent"] = args == decl[ty]
    return out


def reply_obs(lines):
    out = {}
    for l in lines:
        k, _, v = l.partition("=")
        if k == "reply_ids":
            out[k] = tuple(sorted(v.split(",")))             # numeric ids may differ
        elif " builder=" in l:
            parts = v.split(":")
            # handler, trigger, payload mode (binder names are the first method's); `<none>`: no builder recognised
            out[k] = (parts[0], parts[1], parts[-1].split("(")[0]) if len(parts) >= 2 else (v,)
        elif " ok=" in l or " err=" in l:
            parts = v.split(":")
            out[k] = tuple(parts[:3]) if parts[0] == "success" else tuple(parts[:2])
        else:
            out[k] = v
    return out


def check(run, replay=None):
    if replay:
        data = json.load(open(replay))
        run.seed, run.tier = data.get("seed", run.seed), data.get("tier", run.tier)
    rng = random.Random(run.seed)
    thorough = run.tier == "thorough"
    run.rule = ("every generated contract / interface and k random permutations of its methods and of its repeatable attributes, expanded by "
                "the real macro: accepted/rejected and the order-free observation (variants with fields and dispatch arms per type, "
                "published lists, wrapper parts, entry points) compared between twins; reply tables (valid and invalid) and their "
                "permutations: acceptance, set of handler names, method per outcome, data mode, trigger; non-trivial = distinct program")
    replyprops.preamble(run, "Props/C14", THEOREMS)
    # strengthening tie: the attribute parser translated from the source (GenImpParse.v)
    from . import libcommon
    libcommon.regen_imp(run)
    run.prove("Props/C14T", THEOREMS_T, strengthening=True)
    run.prove("Props/C07R", ["c07_translated_second_handler_of_a_reply_id"], strengthening=True)   # merging reply handlers in either order
    g = gen.ProgGen(rng)
    k = 4 if thorough else 2
    bases = [g.gen_contract() if i % 3 else g.gen_iface() for i in range(500 if thorough else 70)]
    progs, owner = [], []
    for bi, b in enumerate(bases):
        progs.append(b)
        owner.append(bi)
        for _ in range(k):
            progs.append(permute(rng, b))
            owner.append(bi)
    reqs = [("p%d" % i, "contract" if isinstance(p, Contract) else "interface", "", p.rust_impl() if isinstance(p, Contract) else p.rust_trait())
            for i, p in enumerate(progs)]
    res = common.probe_run(reqs, tag="c14")
    from .. import canon
    first = {}
    for i, p in enumerate(progs):
        f = common.Facts(res.get("p%d" % i, []))
        lines = canon.canon_contract(f) if isinstance(p, Contract) else canon.canon_iface(f, p.name)
        run.count()
        run.nontriv(("c14", reqs[i][3]))
        run.dist("expand:%s" % f.status)
        o = obs_of(lines)
        bi = owner[i]
        if bi not in first:
            first[bi] = (o, reqs[i][3])
            continue
        o0, src0 = first[bi]
        if o != o0:
            diff = [(key, o0.get(key), o.get(key)) for key in sorted(set(o) | set(o0)) if o.get(key) != o0.get(key)][:3]
            run.oracle_fail("reordering the declarations changes %s" % (["%s: %s -> %s" % d for d in diff]),
                            {"level": "L1", "program": src0, "reordered": reqs[i][3]})
    run.programs += len(progs)
    # ---- entry points under permutations of methods / overrides: covered by the C06 stream (shuffled twins), repeated here on a sample
    from . import c06
    cases = []
    for _ in range(200 if thorough else 40):
        ov = rng.sample(c06.KINDS, rng.randint(0, 4))
        hm, rf, rp, ge = rng.random() < 0.6, rng.choice([None, "on_reply"]), rng.random() < 0.5, rng.random() < 0.3
        a = c06.make_case(ov, True, hm, rf, rp, ge)
        ov2 = list(ov)
        rng.shuffle(ov2)
        b = c06.make_case(ov2, True, hm, rf, rp, ge, order=rng)
        cases.append((a, b))
    reqs = []
    for i, (a, b) in enumerate(cases):
        reqs.append(("a%d" % i, "entry_points", a["attr"], a["item"]))
        reqs.append(("b%d" % i, "entry_points", b["attr"], b["item"]))
    res = common.probe_run(reqs, tag="c14e")
    for i, (a, b) in enumerate(cases):
        fa, fb = common.Facts(res.get("a%d" % i, [])), common.Facts(res.get("b%d" % i, []))
        ia, _ = c06.canon_impl(fa)
        ib, _ = c06.canon_impl(fb)
        run.count()
        if sorted(ia) != sorted(ib):
            run.oracle_fail("reordering methods / override attributes changes the entry points: %s -> %s" % (sorted(ia), sorted(ib)),
                            {"level": "L1", "program": a["item"], "reordered": b["item"]})
    # ---- the overlap check that decides whether a contract with several `sv::messages` compiles: the name lists reach it
    # in declaration order of the interfaces (the contract's own list last); reordering the interfaces permutes the lists
    # and must never change the verdict (run on the real const fn through the run-time library harness)
    from .. import libdiff
    names = ["burn", "burn_from", "mint", "transfer", "a", "ab", "abc", "send", "send_from", "x"]
    groups = []
    for _ in range(400 if thorough else 120):
        n = rng.choice([2, 3, 3, 4])
        ls = [sorted(set(rng.sample(names, rng.randint(1, 4))), key=lambda x: x.encode()) for _ in range(n)]
        if rng.random() < 0.5:                     # mostly disjoint otherwise: force exactly one shared name
            seen = set()
            ls = [[x for x in l if not (x in seen or seen.add(x))] or ["only%d" % i] for i, l in enumerate(ls)]
            if rng.random() < 0.7:
                i, j = rng.sample(range(n), 2)
                shared = rng.choice(ls[i])
                ls[j] = sorted(set(ls[j] + [shared]), key=lambda x: x.encode())
        perms = [ls]
        for _ in range(3):
            head = ls[:-1]
            rng.shuffle(head)
            perms.append(head + [ls[-1]])           # interfaces reordered, contract last
        groups.append(perms)
    flat = [p for g in groups for p in g]
    obs = libdiff.run([{"op": "intersect", "lists": l} for l in flat], tag="c14o")
    k0 = 0
    for g in groups:
        outs = [obs[k0 + i].get("outcome", "error") for i in range(len(g))]
        k0 += len(g)
        run.count(len(g))
        run.nontriv(("c14o", json.dumps(g[0])))
        run.dist("overlap_reorder:%s" % outs[0])
        for l, o in zip(g[1:], outs[1:]):
            if o != outs[0]:
                run.oracle_fail("reordering the interfaces changes the verdict of the overlap check: %s for %s, %s for %s" % (
                    outs[0], json.dumps(g[0]), o, json.dumps(l)), {"level": "L3", "lists": g[0], "reordered": l})
                break
    # ---- reply tables
    tables = [replies.gen_table(rng, 0.75) for _ in range(1000 if thorough else 150)]
    want, tries = len(tables) // 5, 0          # ... plus tables with a method claiming several handler names (see replyprops.run_l1)
    while want and tries < 20000:
        tries += 1
        t = replies.gen_table(rng, 0.9)
        if any(len(m.handlers) >= 2 for m in t):
            tables.append(t)
            want -= 1
    progs, owner = [], []
    for ti, t in enumerate(tables):
        progs.append(replies.RProg(t))
        owner.append(ti)
        for _ in range(k):
            t2 = copy.deepcopy(t)
            rng.shuffle(t2)
            progs.append(replies.RProg(t2))
            owner.append(ti)
    reqs = [("r%d" % i, "contract", "", p.contract().rust_impl()) for i, p in enumerate(progs)]
    res = common.probe_run(reqs, tag="c14r")
    first = {}
    for i, p in enumerate(progs):
        f = common.Facts(res.get("r%d" % i, []))
        o = reply_obs(replies.canon_reply(f))
        run.count()
        run.nontriv(("c14r", reqs[i][3]))
        run.dist("reply_table:%s" % f.status)
        ti = owner[i]
        if ti not in first:
            first[ti] = (o, reqs[i][3])
            continue
        o0, src0 = first[ti]
        if o != o0:
            diff = [(key, o0.get(key), o.get(key)) for key in sorted(set(o) | set(o0)) if o.get(key) != o0.get(key)][:3]
            run.oracle_fail("reordering the reply methods changes %s" % (["%s: %s -> %s" % d for d in diff]),
                            {"level": "L1", "program": src0, "reordered": reqs[i][3]})
    run.programs += len(progs)
    if replay:
        print("replayed seed=%s tier=%s: %d oracle failure(s)" % (run.seed, run.tier, len(run.oracle_failures)))
        return 1 if run.oracle_failures else 0
