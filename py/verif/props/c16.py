"""C16 - query response metadata names each query's real response type."""
from . import msgprops

THEOREMS = ["c16_part_table_entries", "c16_every_query_has_its_entry", "c16_contract_table_is_the_union", "c16_every_name_once"]


def check(run, replay=None):
    run.rule = ("L1: generated contracts/interfaces with queries returning plain types, generic parameters, associated types and explicit "
                "resp= types: the returns(T) recorded per variant vs the Coq model and vs the signature; how the contract-level table "
                "(flatten over the parts) and schema (any_of over the parts) are assembled; L2: compiled corpus, response_schemas() of "
                "every part and of the contract-level query vs schema_for!(declared type) computed in the same binary, names vs the "
                "names the queries serialise under; non-trivial = distinct program / part")
    return msgprops.check(run, "C16", "Props/C16", THEOREMS, {"decode": False, "schemas": True}, replay,
                          translated=[("Props/C16T", ["c16_translated_response_schemas_calls", "c16_translated_contract_level_table_parts"]),
                                      ("Props/C16V", ["c16_translated_variant_records_the_response_type", "c16_translated_explicit_response_type_wins",
                                                      "c16_translated_only_queries_have_a_response_type"])])
