"""C04 - handlers are reachable only through the entry point of their own kind."""
from . import msgprops

THEOREMS = ["c04_only_handlers_of_the_entry_points_kind", "c04_one_kind_per_method", "c04_kind_names_injective"]


def check(run, replay=None):
    run.rule = ("L2: every well-formed exec/query/sudo message of the corpus sent to the entry points (and multitest Contract "
                "methods) of the two other kinds; handlers run are read from the call log in storage and from the response; "
                "L1: which name lists / message types each contract-level type uses; non-trivial = distinct (program, route, message)")
    return msgprops.check(run, "C04", "Props/C04", THEOREMS, {"c04": True}, replay)
