"""C04 - handlers are reachable only through the entry point of their own kind."""
from . import msgprops

THEOREMS = ["c04_only_handlers_of_the_entry_points_kind", "c04_one_kind_per_method", "c04_kind_names_injective"]


def check(run, replay=None):
    run.rule = ("L2: every well-formed exec/query/sudo message of the corpus sent to the entry points (and multitest Contract "
                "methods) of the two other kinds; handlers run are read from the call log in storage and from the response; "
                "L1: which name lists / message types each contract-level type uses, and which message type or registered override each "
                "operation of the generated multitest Contract impl uses (all single-kind override sets + random subsets); non-trivial = distinct (program, route, message)")
    rc = msgprops.check(run, "C04", "Props/C04", THEOREMS, {"c04": True}, replay,
                        translated=("Props/C04T", ["c04_translated_multitest_operations", "c04_default_dispatch_names_its_own_kind"]))
    if not replay:
        # the multitest Contract impl: every operation reaches only its own kind's message type or override
        import random
        from . import mtimpl
        rng = random.Random(run.seed + 4)
        mtimpl.run_cases(run, mtimpl.sample_cases(rng, 64 if run.tier == "thorough" else 24), "c04mt")
    return rc
