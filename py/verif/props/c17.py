"""C17 - forwarded attributes land on exactly the designated item."""
from . import msgprops

THEOREMS = ["c17_type_attributes", "c17_kind_names", "c17_other_kinds_do_not_get_it", "c17_variant_attributes", "c17_field_attributes",
            "c17_default_marker_is_the_arguments", "c17_missing_field_without_default_is_rejected",
            "c17_missing_field_with_default_is_accepted"]
THEOREMS_T = ["c17_translated_contract_enum_message", "c17_translated_interface_enum_message", "c17_translated_struct_message",
              "c17_translated_struct_message_absent", "c17_translated_kept_lines"]
THEOREMS_P = ["c17_translated_forwarded_lines_are_collected_in_order"]


def check(run, replay=None):
    run.rule = ("L1: generated programs with sv::msg_attr on every kind (several per kind, same attribute to different kinds), sv::attr on "
                "handlers and attributes on arguments: attribute lists of every generated type, variant and field vs the Coq model and "
                "vs the placement written in the program; L2: documents lacking one field sent to compiled messages, accepted iff the "
                "argument carries serde(default) or is an Option; non-trivial = distinct program / document")
    return msgprops.check(run, "C17", "Props/C17", THEOREMS, {"c03": True, "c17": True}, replay,
                          translated=[("Props/C17T", THEOREMS_T), ("Props/C17P", THEOREMS_P),
                                      ("Props/C17F", ["c17_translated_field_of_a_parameter", "c17_translated_field_is_emitted_with_its_attributes",
                                                      "c17_translated_fields_of_a_signature"]),
                                      # the hand model of the core theorems and the specification proved of the translated code agree
                                      ("Props/C17B", ["c17_hand_model_forwards_what_the_translated_parser_collects",
                                                      "c17_hand_model_filter_is_the_translated_filter"])])
