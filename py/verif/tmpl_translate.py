"""Generated code TEMPLATES (`quote!` bodies of sylvia-derive, as dumped by the probe) turned into Rust source text that
syn can parse, so that imp_translate can translate their function bodies into Model/Imp.v programs.

A template has holes `# name` and repetitions `# ( .. ) sep *`. The holes of the templates translated here stand for types,
paths or generic parameter lists - they occur in type positions only, which the translation into the untyped language erases -
or for a nested template that is spliced in. Every hole must be classified below; an unclassified hole, or one used in
an expression position it was not classified for, makes the translation fail (TranslateError), so a change of the
template cannot be silently mistranslated. The resulting program is therefore the body of the generated code FOR EVERY
contract (it does not mention the contract)."""
import os
import re

from . import common, translate
from .translate import TranslateError

# holes that stand for a type / path / generics: replaced by a fixed identifier (or nothing)
TYPE_HOLES = {
    "sylvia": "sylvia", "contract": "ContractT", "contract_name": "ContractT", "contract_ident": "ContractT", "error_type": "ErrorT",
    "custom_msg": "CustomMsgT", "custom_query": "CustomQueryT", "mt_app": "MtApp", "instantiate_msg": "InstantiateMsg",
    "bracketed_used_generics": "", "where_predicates": "",
}
# holes that splice another item-level template which is not translated: dropped
DROPPED_HOLES = {"code_info"}


def strip_repetitions(tokens, rep_subst=None):
    """removes `# ( .. ) *` and `# ( .. ) sep *` (generic parameters: positions erased by the translation); a repetition of a
    single hole named in rep_subst is replaced by the given text (an argument list becomes ONE symbolic argument)"""
    rep_subst = rep_subst or {}
    # (proc_macro2 glues punctuation - `(#`, `,*)`, `::<'_` -: split into single tokens, multi-character operators kept)
    toks = re.findall(r'"(?:[^"\\]|\\.)*"|\'\w+|\w+|::|->|=>|\.\.=?|&&|\|\||==|!=|<=|>=|[-+*/%^&|]=|\S', tokens)
    out, i = [], 0
    while i < len(toks):
        if toks[i] == "#" and i + 1 < len(toks) and toks[i + 1].startswith("("):
            depth, j = 0, i + 1
            while j < len(toks):
                depth += toks[j].count("(") - toks[j].count(")")
                if depth <= 0:
                    break
                j += 1
            j += 1
            if j < len(toks) and toks[j] in (",", ";") and j + 1 < len(toks) and toks[j + 1].startswith("*"):
                j += 1
            ms = re.match(r"[,;]?\*(.*)$", toks[j]) if j < len(toks) else None
            if ms:
                inner = " ".join(toks[i + 1:j])
                mh = re.fullmatch(r"\( # (\w+)(?: ,)? \)(?: [,;])?", inner.strip())
                if mh and mh.group(1) in rep_subst:
                    out.append(rep_subst[mh.group(1)])
                j += 1
                if ms.group(1):
                    out.append(ms.group(1))
                i = j
                continue
            raise TranslateError("malformed repetition in template near: %s" % " ".join(toks[i:i + 12]))
        out.append(toks[i])
        i += 1
    return " ".join(out)


def instantiate(templates, key, nested, extra_holes=None, rep_subst=None):
    """source text of template `key` with holes filled: nested = {hole name: template key spliced in its place}"""
    t = dict((x[0], x[-1]) for x in templates)
    if key not in t:
        raise TranslateError("template %s not found in the current source" % key)
    text = strip_repetitions(t[key], rep_subst)
    extra_holes = extra_holes or {}

    def fill(m):
        name = m.group(1)
        if name in nested:
            return " " + instantiate(templates, nested[name], nested, extra_holes, rep_subst) + " "
        if name in extra_holes:
            return " " + extra_holes[name] + " "
        if name in TYPE_HOLES:
            return " " + TYPE_HOLES[name] + " "
        if name in DROPPED_HOLES:
            return " "
        raise TranslateError("template %s: hole #%s is not classified" % (key, name))
    return re.sub(r"# (\w+)", fill, text)


def write_source(name, text):
    d = os.path.join(common.WORK, "tmpl_src")
    os.makedirs(d, exist_ok=True)
    path = os.path.join(d, name + ".rs")
    with open(path, "w") as f:
        f.write(text + "\n")
    return path


def instantiate_proxy_source(templates):
    """the generated `InstantiateProxy` (options + call) and `CodeId::instantiate` (the defaults), for any contract"""
    proxy = instantiate(templates, "contract/mt.rs::MtHelpers<'a>::emit_instantiate_proxy#t0",
                        {"instantiate2_body": "contract/mt.rs::MtHelpers<'a>::emit_instantiate2_body#t0"})
    code_id_key = [x[0] for x in templates if x[0].startswith("contract/mt.rs::MtHelpers<'a>::emit_code_id#") and "pub fn instantiate" in x[-1]]
    if len(code_id_key) != 1:
        raise TranslateError("template of CodeId::instantiate not found (candidates: %s)" % code_id_key)
    code_id = instantiate(templates, code_id_key[0], {})
    return write_source("instantiate_proxy", proxy + "\n" + code_id)


METHOD_KINDS = ["exec", "query", "sudo", "migrate"]


def proxy_methods_source(templates, side="contract"):
    """the four kinds of generated proxy method (contract/mt.rs emit_mt_method_definition: exec, query, sudo, migrate), for
    any contract and any method: the method's name becomes `<kind>_method`, its parameter list ONE parameter `args`, the
    argument list of the message constructor that one argument"""
    fns = []
    for i, kind in enumerate(METHOD_KINDS):
        key = "%s/mt.rs::<MsgVariant<'_>asEmitMethods>::emit_mt_method_definition#t%d" % (side, i)
        fns.append(instantiate(templates, key, {}, extra_holes={"name": "%s_method" % kind, "api": "ApiT", "type_name": "KindMsg", "return_type": "ReturnT"},
                               rep_subst={"params": "args : ArgsT ,", "arguments": "args"}))
    want = {"exec": "ExecProxy :: new", "query": "query_wasm_smart", "sudo": "wasm_sudo", "migrate": "MigrateProxy :: new"}
    for kind, text in zip(METHOD_KINDS, fns):
        if want[kind] not in text:
            raise TranslateError("generated %s proxy method: the template no longer contains `%s`" % (kind, want[kind]))
    return write_source("proxy_methods_%s" % side, "impl ProxyT { %s }" % " ".join(fns))


def reply_builders_source(templates):
    """the generated sub-message builders of a reply handler (contract/communication/reply.rs: emit_submsg_setter for an existing
    SubMsg, emit_submsg_converter for a WasmMsg / CosmosMsg), each with a typed and with a raw payload. The holes `#reply_on`
    and `#reply_id` are VALUES of the generated code (the trigger and the id constant): they become two extra parameters,
    so the statements hold for every trigger and id; the payload parameters become ONE parameter `args`."""
    base = "contract/communication/reply.rs::"
    ser = {"typed": base + "<Vec<&MsgField<'_>>asPayloadFields>::emit_payload_serialization#t1",
           "raw": base + "<Vec<&MsgField<'_>>asPayloadFields>::emit_payload_serialization#t0"}
    fns = []
    for recv, key in (("setter", base + "ReplyData<'a>::emit_submsg_setter#t0"), ("converter", base + "ReplyData<'a>::emit_submsg_converter#t0")):
        for mode in ("typed", "raw"):
            fns.append(instantiate(templates, key, {"payload_serialization": ser[mode]},
                                   extra_holes={"method_name": "%s_%s" % (recv, mode), "reply_on": "reply_on_hole", "reply_id": "reply_id_hole",
                                                "payload_value": "args"},
                                   rep_subst={"payload_parameters": "args : ArgsT , reply_on_hole : ReplyOnT , reply_id_hole : u64",
                                              "payload_values": "args"}))
    for f in fns:
        if "reply_on : reply_on_hole" not in " ".join(f.split()) or "id : reply_id_hole" not in " ".join(f.split()):
            raise TranslateError("generated reply builder: the template no longer sets reply_on / id from #reply_on / #reply_id")
    return write_source("reply_builders", "impl BuilderT { %s }" % " ".join(fns))


DATA_MODES = [("raw_opt", 4), ("raw", 5), ("inst_opt", 6), ("inst", 7), ("opt", 8), ("typed", 9)]


def reply_data_source(templates):
    """the generated extraction of the reply data, one function per declared data mode (contract/communication/reply.rs
    <MsgField as DataField>::emit_data_deserialization, templates t4..t9 with the nested envelope templates t2 / t3 spliced):
    `fn <mode>(data, missing_data_err, invalid_reply_data_err) { <template> Ok(data) }` - the two error texts the macro
    splices are parameters, the trailing `Ok(data)` makes the extracted value the result. WHICH template a mode selects is
    the macro's decision (C09's model and L1 tie); the numbering is checked against the templates' content below."""
    base = "contract/communication/reply.rs::<MsgField<'_>asDataField>::emit_data_deserialization#t"
    nested = {"execute_data_deserialization": base + "2", "instantiate_data_deserialization": base + "3"}
    holes = {"missing_data_err": "missing_data_err", "invalid_reply_data_err": "invalid_reply_data_err"}
    t = dict((x[0], x[-1]) for x in templates)
    expect = {"raw_opt": lambda x: x.strip() == "", "raw": lambda x: "parse_" not in x and "None => return Err" in x,
              "inst_opt": lambda x: "instantiate_data_deserialization" in x and "None => None" in x,
              "inst": lambda x: "instantiate_data_deserialization" in x and "None => return Err" in x,
              "opt": lambda x: "execute_data_deserialization" in x and "None => None" in x,
              "typed": lambda x: "execute_data_deserialization" in x and "None => return Err" in x}
    fns = []
    for mode, k in DATA_MODES:
        key = base + str(k)
        if key not in t or not expect[mode](t[key]):
            raise TranslateError("reply data extraction: template %s is not the one of mode %s any more" % (key, mode))
        body = instantiate(templates, key, nested, extra_holes=holes)
        fns.append("fn %s ( data : DataT , missing_data_err : S , invalid_reply_data_err : S ) -> R { %s Ok ( data ) }" % (mode, body))
    return write_source("reply_data", "impl DataT { %s }" % " ".join(fns))


ARM_COMBOS = [("handler_handler", 1, 0), ("handler_pass", 1, 2), ("pass_handler", 3, 0), ("always_always", 2, 1)]


def reply_arms_source(templates):
    """the generated reply dispatch for ONE reply id (contract/communication/reply.rs: emit_match_arms with the success / error arms
    emit_success_match_arm t1..t3 and emit_error_match_arm t0..t2) in the four combinations the macro produces:
    `fn <combo>(deps, env, gas_used, payload, result) { match result { <success arm> <error arm> } }`. The handler names become
    success_handler / error_handler / always_handler, the payload values ONE value `args` (typed payload, decoded by from_json);
    the data extraction block is left out here (proved per mode in Props/C09T): the handler receives `data` as it arrived."""
    base = "contract/communication/reply.rs::"
    suc = base + "ReplyData<'a>::emit_success_match_arm#t%d"
    err = base + "ReplyData<'a>::emit_error_match_arm#t%d"
    pay = base + "<Vec<&MsgField<'_>>asPayloadFields>::emit_payload_deserialization#t1"
    t = dict((x[0], x[-1]) for x in templates)
    checks = [(suc % 1, "msg_responses) . into ()"), (suc % 2, "vec ! []"), (suc % 3, "set_data"), (err % 0, ", error ,"), (err % 1, ", result ,"),
              (err % 2, "generic_err (error)")]
    for key, needle in checks:
        if key not in t or needle not in t[key]:
            raise TranslateError("reply dispatch arms: template %s is not the expected one any more" % key)
    fns = []
    for name, si, ei in ARM_COMBOS:
        parts = []
        for key, handler in ((suc % si, "always_handler" if name == "always_always" else "success_handler"),
                             (err % ei, "always_handler" if name == "always_always" else "error_handler")):
            parts.append(instantiate(templates, key, {"payload_deserialization": pay},
                                     extra_holes={"method_name": handler, "contract_turbofish": "ContractT", "data": "data ,",
                                                  "data_deserialization": ""},
                                     rep_subst={"payload_values": "args", "deserialized_payload_names": "args"}))
        fns.append("fn %s ( deps : D , env : E , gas_used : u64 , payload : B , result : R ) -> Out { match result { %s %s } }" % (
            name, parts[0], parts[1]))
    return write_source("reply_arms", "impl ArmsT { %s }" % " ".join(fns))
