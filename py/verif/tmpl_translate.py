"""Generated code TEMPLATES (`quote!` bodies of sylvia-derive, as dumped by the probe) turned into Rust source text that
syn can parse, so that imp_translate can translate their function bodies into Model/Imp.v programs.

A template has holes `# name` and repetitions `# ( .. ) sep *`. The holes of the templates translated here stand for types,
paths or generic parameter lists - they occur in type positions only, which the translation into the untyped language erases -
or for a nested template that is spliced in. Every hole must be classified below; an unclassified hole, or one used in
an expression position it was not classified for, makes the translation fail (TranslateError), so a change of the
template cannot be silently mistranslated. The resulting program is therefore the body of the generated code FOR EVERY
contract (it does not mention the contract)."""
import os
import re

from . import common, translate
from .translate import TranslateError

# holes that stand for a type / path / generics: replaced by a fixed identifier (or nothing)
TYPE_HOLES = {
    "sylvia": "sylvia", "contract": "ContractT", "contract_name": "ContractT", "contract_ident": "ContractT", "error_type": "ErrorT",
    "custom_msg": "CustomMsgT", "custom_query": "CustomQueryT", "mt_app": "MtApp", "instantiate_msg": "InstantiateMsg",
    "bracketed_used_generics": "", "where_predicates": "",
}
# holes that splice another item-level template which is not translated: dropped
DROPPED_HOLES = {"code_info"}


def strip_repetitions(tokens):
    """removes `# ( .. ) *` and `# ( .. ) sep *` (generic parameters, argument lists: positions erased by the translation)"""
    toks = tokens.split(" ")
    out, i = [], 0
    while i < len(toks):
        if toks[i] == "#" and i + 1 < len(toks) and toks[i + 1].startswith("("):
            depth, j = 0, i + 1
            while j < len(toks):
                depth += toks[j].count("(") - toks[j].count(")")
                if depth <= 0:
                    break
                j += 1
            j += 1
            if j < len(toks) and toks[j] in (",", ";") and j + 1 < len(toks) and toks[j + 1].startswith("*"):
                j += 1
            ms = re.match(r"[,;]?\*(.*)$", toks[j]) if j < len(toks) else None
            if ms:
                j += 1
                if ms.group(1):
                    out.append(ms.group(1))
                i = j
                continue
            raise TranslateError("malformed repetition in template near: %s" % " ".join(toks[i:i + 12]))
        out.append(toks[i])
        i += 1
    return " ".join(out)


def instantiate(templates, key, nested):
    """source text of template `key` with holes filled: nested = {hole name: template key spliced in its place}"""
    t = dict((x[0], x[-1]) for x in templates)
    if key not in t:
        raise TranslateError("template %s not found in the current source" % key)
    text = strip_repetitions(t[key])

    def fill(m):
        name = m.group(1)
        if name in nested:
            return " " + instantiate(templates, nested[name], nested) + " "
        if name in TYPE_HOLES:
            return " " + TYPE_HOLES[name] + " "
        if name in DROPPED_HOLES:
            return " "
        raise TranslateError("template %s: hole #%s is not classified" % (key, name))
    return re.sub(r"# (\w+)", fill, text)


def write_source(name, text):
    d = os.path.join(common.WORK, "tmpl_src")
    os.makedirs(d, exist_ok=True)
    path = os.path.join(d, name + ".rs")
    with open(path, "w") as f:
        f.write(text + "\n")
    return path


def instantiate_proxy_source(templates):
    """the generated `InstantiateProxy` (options + call) and `CodeId::instantiate` (the defaults), for any contract"""
    proxy = instantiate(templates, "contract/mt.rs::MtHelpers<'a>::emit_instantiate_proxy#t0",
                        {"instantiate2_body": "contract/mt.rs::MtHelpers<'a>::emit_instantiate2_body#t0"})
    code_id_key = [x[0] for x in templates if x[0].startswith("contract/mt.rs::MtHelpers<'a>::emit_code_id#") and "pub fn instantiate" in x[-1]]
    if len(code_id_key) != 1:
        raise TranslateError("template of CodeId::instantiate not found (candidates: %s)" % code_id_key)
    code_id = instantiate(templates, code_id_key[0], {})
    return write_source("instantiate_proxy", proxy + "\n" + code_id)
