"""L2: generation, build and execution of compiled corpus programs with echo handlers."""
import hashlib
import json
import os
import shutil
import subprocess
import time
from dataclasses import dataclass, field
from typing import List, Optional, Tuple

from . import common, canon
from .common import VERIF, CACHE, REPO, log
from .prog import (Contract, Interface, Method, Arg, Other, WPred, P, PP, Tup, Ty, sv_msg, sv_attr, sv_msg_attr,
                   sv_messages, sv_override, sv_custom, sv_error, sv_features, foreign, CTX_TYPE, Attr)

SRC = os.path.join(VERIF, "harness", "corpus")


# ------------------------------------------------------------------------------------------ spec
@dataclass
class L2Method:
    name: str
    kind: str                                   # instantiate | exec | query | sudo | migrate
    args: List[Arg] = field(default_factory=list)
    ret: str = "echo"                           # 'echo' | 'arg0' (query returning its first argument)
    extra_attrs: List[Attr] = field(default_factory=list)   # sv::attr(..), foreign attributes


@dataclass
class L2Iface:
    mod: str
    trait: str
    assoc: List[Tuple[str, Ty]] = field(default_factory=list)      # (name, concrete type used by the impl)
    methods: List[L2Method] = field(default_factory=list)
    as_name: Optional[str] = None
    custom_msg: bool = False                    # `: custom(msg)` on sv::messages
    custom_query: bool = False
    msg_attrs: List[Tuple[str, str]] = field(default_factory=list)


@dataclass
class L2Prog:
    name: str = "Ctr"
    generics: List[Tuple[str, Ty]] = field(default_factory=list)   # (param, concrete type for entry points)
    methods: List[L2Method] = field(default_factory=list)
    ifaces: List[L2Iface] = field(default_factory=list)
    error: str = "std"                          # 'std' | 'custom'
    msg_attrs: List[Tuple[str, str]] = field(default_factory=list)
    custom: Optional[Tuple[Optional[str], Optional[str]]] = None   # (msg type, query type) of the contract
    overrides: List[str] = field(default_factory=list)
    extra_item_attrs: List[Attr] = field(default_factory=list)
    tag: str = ""
    idx: int = 0

    # ---- views as L1 programs -------------------------------------------------------------
    def err_ty(self):
        return "ContractError" if self.error == "custom" else "StdError"

    def q_ty(self):
        return self.custom[1] if self.custom and self.custom[1] else None

    def m_ty(self):
        return self.custom[0] if self.custom and self.custom[0] else None

    def ret_ty(self, m, in_iface=False):
        if m.kind == "query":
            inner = P("EchoResp") if m.ret == "echo" else m.args[0].ty
        else:
            inner = P("Response", P(self.m_ty())) if (self.m_ty() and not in_iface) else P("Response")
        if in_iface:
            return P("Result", inner, PP("Self", "Error"))
        return P("Result", inner, P(self.err_ty()))

    def to_contract(self, with_bodies=False, concrete=False):
        c = Contract(self.name, generics=[] if concrete else [g for g, _ in self.generics])
        for g, _ in ([] if concrete else self.generics):
            c.where.append(WPred(P(g), [P("Data")]))
        for i in self.ifaces:
            c.attrs.append(sv_messages(["crate", "p%d" % self.idx, i.mod], as_name=i.as_name, custom_msg=i.custom_msg,
                                       custom_query=i.custom_query))
        if self.error == "custom":
            c.attrs.append(sv_error("ContractError"))
        if self.custom:
            c.attrs.append(sv_custom(msg=self.custom[0], query=self.custom[1]))
        for k, t in self.msg_attrs:
            c.attrs.append(sv_msg_attr(k, t))
        for k in self.overrides:
            c.attrs.append(sv_override(k, "super::custom_%s" % k, "super::Custom%sMsg" % k.capitalize()))
        c.attrs += self.extra_item_attrs
        for m in self.methods:
            ctx = CTX_TYPE[m.kind] + ("<%s>" % self.q_ty() if self.q_ty() else "")
            mm = Method(m.name, list(m.extra_attrs) + [sv_msg(m.kind)],
                        [Arg(a.name, self.concretize(a.ty) if concrete else a.ty, list(a.attrs)) for a in m.args],
                        self.ret_ty(m), ctx_ty=ctx)
            if concrete and m.kind == "query" and m.ret == "arg0":
                mm.ret = P("Result", self.concretize(m.args[0].ty), P(self.err_ty()))
            if with_bodies:
                mm.body = self.handler_body(m, in_iface=False)
            c.items.append(mm)
        return c

    def to_iface(self, i, with_bodies=False, concrete=False):
        it = Interface(i.trait)
        it.assoc.append(("Error", [P("From", P("StdError"))]))
        for n, _ in ([] if concrete else i.assoc):
            it.assoc.append((n, [P("Data")]))
        it.attrs.append(sv_custom(msg="Empty", query="Empty"))
        for k, t in i.msg_attrs:
            it.attrs.append(sv_msg_attr(k, t))
        for m in i.methods:
            mm = Method(m.name, list(m.extra_attrs) + [sv_msg(m.kind)],
                        [Arg(a.name, self.concretize(a.ty, i) if concrete else a.ty, list(a.attrs)) for a in m.args],
                        self.ret_ty(m, in_iface=True), ctx_ty=CTX_TYPE[m.kind])
            if concrete and m.kind == "query" and m.ret == "arg0":
                mm.ret = P("Result", self.concretize(m.args[0].ty, i), PP("Self", "Error"))
            it.items.append(mm)
        return it

    # ---- echo handler bodies ---------------------------------------------------------------
    def handler_body(self, m, in_iface, iface_err=None):
        args = "vec![%s]" % ", ".join("j(&%s)" % a.name for a in m.args)
        custom_err = (self.error == "custom")
        if m.kind == "query":
            if m.ret == "arg0":
                return "{ let _ = (&ctx.env, %s); Ok(%s) }" % (args, m.args[0].name)
            core = 'echo_query("%s", ctx.deps, &ctx.env, %s)' % (m.name, args)
            pre = ""
            if custom_err:
                pre = 'if custom_fail(ctx.deps.storage) || %s.iter().any(|a: &String| a.contains("__failcustom__")) { return Err(ContractError::Named("%s".to_string())); } ' % (args, m.name)
            return "{ %sOk(%s?) }" % (pre, core)
        info = "Some(&ctx.info)" if m.kind in ("exec", "instantiate") else "None"
        core = 'echo_mut("%s", "%s", ctx.deps, &ctx.env, %s, %s)' % (m.name, m.kind, info, args)
        pre = ""
        if custom_err:
            # (an argument holding the marker makes the handler fail with the contract's own error type - usable where no
            #  storage exists yet: instantiate)
            pre = 'if custom_fail(ctx.deps.storage) || %s.iter().any(|a: &String| a.contains("__failcustom__")) { return Err(ContractError::Named("%s".to_string())); } ' % (args, m.name)
        return "{ %sOk(%s?) }" % (pre, core)

    # ---- concrete types ------------------------------------------------------------------------
    def concretize(self, t, iface=None):
        env = {g: c for g, c in self.generics}
        aenv = {n: c for n, c in (iface.assoc if iface else [])}
        return subst(t, env, aenv)


def subst(t, env, aenv):
    if t.kind == "path":
        segs = t.segs
        if len(segs) == 2 and segs[0][0] == "Self" and segs[1][0] in aenv and not segs[1][1]:
            return subst(aenv[segs[1][0]], env, {})
        if len(segs) == 1 and segs[0][0] in env and not segs[0][1]:
            return env[segs[0][0]]
        return Ty("path", segs=tuple((n, tuple(subst(a, env, aenv) for a in args)) for n, args in segs))
    return Ty(t.kind, items=tuple(subst(a, env, aenv) for a in t.items))


# ------------------------------------------------------------------------------------------ rendering
KINDS_ENUM = [("exec", "Exec", "ContractExec", "execute"), ("query", "Query", "ContractQuery", "query"),
              ("sudo", "Sudo", "ContractSudo", "sudo")]


def render_program(idx, p, names):
    """names: {'contract': {method name: ctor name}, 'i<k>': {...}} learnt from the real expansion (L1 probe)."""
    cty = "contract::%s" % p.name + ("<%s>" % ", ".join(c.rust() for _, c in p.generics) if p.generics else "")
    out = []
    w = out.append
    w("// generated corpus program %d %s" % (idx, p.tag))
    w("#![allow(unused_imports, unused_variables, dead_code, non_snake_case, clippy::all, deprecated)]")
    w("use crate::rt::*;")
    w("use serde_json::{json, Value};")
    w("use svfw::cw_std::{from_json, to_json_string, Response, StdError, StdResult};")
    w("use svfw::types::ContractApi;")
    for k, i in enumerate(p.ifaces):
        w("pub mod %s {" % i.mod)
        w("    use crate::rt::*;")
        w("    use svfw::ctx::{ExecCtx, QueryCtx, SudoCtx};")
        w("    use svfw::cw_std::{Empty, Response, StdError};")
        w("    #[svfw::interface]")
        w("    " + p.to_iface(i).rust_trait().replace("\n", "\n    "))
        w("}")
    w("pub mod contract {")
    w("    use crate::rt::*;")
    w("    use svfw::ctx::{ExecCtx, InstantiateCtx, MigrateCtx, QueryCtx, SudoCtx};")
    w("    use svfw::cw_std::{Empty, Response, StdError, StdResult};")
    if p.generics:
        w("    pub struct %s<%s>(pub std::marker::PhantomData<(%s,)>);" % (
            p.name, ", ".join(g for g, _ in p.generics), ", ".join(g for g, _ in p.generics)))
        ep_attr = "#[svfw::entry_points(generics<%s>)]" % ", ".join(c.rust() for _, c in p.generics)
        ctor = "Self(std::marker::PhantomData)"
    else:
        w("    pub struct %s;" % p.name)
        ep_attr = "#[svfw::entry_points]"
        ctor = "Self"
    c = p.to_contract(with_bodies=True)
    text = c.rust_impl(extra_attrs=[ep_attr, "#[svfw::contract]"]).replace("Self::construct()", ctor)
    w("    " + text.replace("\n", "\n    "))
    for i in p.ifaces:
        g = "<%s>" % ", ".join("%s: Data" % g for g, _ in p.generics) if p.generics else ""
        w("    impl%s super::%s::%s for %s {" % (g, i.mod, i.trait, c.self_ty()))
        w("        type Error = %s;" % p.err_ty())
        for n, conc in i.assoc:
            w("        type %s = %s;" % (n, conc.rust()))
        for m in i.methods:
            params = ["&self", "ctx: %s" % CTX_TYPE[m.kind]] + ["%s: %s" % (a.name, a.ty.rust()) for a in m.args]
            w("        fn %s(%s) -> %s %s" % (m.name, ", ".join(params), p.ret_ty(m, in_iface=True).rust(),
                                           p.handler_body(m, in_iface=True)))
        w("    }")
    w("}")
    w("type C = %s;" % cty)
    # ---- parts table: (part id, accessor path prefix)
    parts = [("contract", None)] + [("i%d" % k, i) for k, i in enumerate(p.ifaces)]

    def part_ty(part, iface, acc):
        if iface is None:
            return "<C as ContractApi>::%s" % acc
        return "<C as %s::sv::InterfaceMessagesApi>::%s" % (iface.mod, acc)

    # tables
    w("fn tables() -> Value {")
    w("    json!({")
    w('        "contract": {"execute": contract::sv::execute_messages(), "query": contract::sv::query_messages(), "sudo": contract::sv::sudo_messages()},')
    for k, i in enumerate(p.ifaces):
        w('        "i%d": {"execute": %s::sv::execute_messages(), "query": %s::sv::query_messages(), "sudo": %s::sv::sudo_messages()},' % (k, i.mod, i.mod, i.mod))
    w("    })")
    w("}")
    # encode
    w("fn encode(op: &Value) -> Result<Value, String> {")
    w('    let args = &op["args"];')
    w('    match (op["part"].as_str().unwrap_or(""), op["method"].as_str().unwrap_or("")) {')
    for part, iface in parts:
        methods = p.methods if iface is None else iface.methods
        for m in methods:
            lets = []
            for ai, a in enumerate(m.args):
                lets.append("let a%d: %s = arg(args, %d)?;" % (ai, p.concretize(a.ty, iface).rust(), ai))
            argl = ", ".join("a%d" % ai for ai in range(len(m.args)))
            if m.kind in ("instantiate", "migrate"):
                acc = "Instantiate" if m.kind == "instantiate" else "Migrate"
                w('        ("%s", "%s") => { %s let m = %s::new(%s); Ok(json!({"json": to_json_string(&m).map_err(|e| e.to_string())?})) }' % (
                    part, m.name, " ".join(lets), part_ty(part, iface, acc), argl))
            else:
                acc, wacc = {"exec": ("Exec", "ContractExec"), "query": ("Query", "ContractQuery"), "sudo": ("Sudo", "ContractSudo")}[m.kind]
                ctor = names[part][m.name]
                w('        ("%s", "%s") => { %s let m = %s::%s(%s); let wj = to_json_string(&<C as ContractApi>::%s::from(m.clone())).map_err(|e| e.to_string())?; Ok(json!({"json": to_json_string(&m).map_err(|e| e.to_string())?, "wrapper_json": wj})) }' % (
                    part, m.name, " ".join(lets), part_ty(part, iface, acc), ctor, argl, wacc))
    w('        (a, b) => Err(format!("no method {} {}", a, b)),')
    w("    }")
    w("}")
    # decode part
    w("fn decode(op: &Value) -> Value {")
    w('    let text = op["json"].as_str().unwrap_or("");')
    w('    match (op["part"].as_str().unwrap_or(""), op["kind"].as_str().unwrap_or("")) {')
    for part, iface in parts:
        accs = [("exec", "Exec"), ("query", "Query"), ("sudo", "Sudo")]
        if iface is None:
            accs += [("instantiate", "Instantiate")]
            if any(m.kind == "migrate" for m in p.methods):
                accs += [("migrate", "Migrate")]
        for kind, acc in accs:
            w('        ("%s", "%s") => match from_json::<%s>(text.as_bytes()) { Ok(m) => json!({"ok": to_json_string(&m).unwrap_or_default(), "dbg": format!("{:?}", m)}), Err(e) => json!({"err": e.to_string()}) },' % (
                part, kind, part_ty(part, iface, acc)))
    w('        _ => json!({"error": "bad part/kind"}),')
    w("    }")
    w("}")
    # decode wrapper
    cvar = p.name
    w("fn decode_wrapper(op: &Value) -> Value {")
    w('    let text = op["json"].as_str().unwrap_or("");')
    w('    match op["kind"].as_str().unwrap_or("") {')
    for kind, acc, wacc, ep in KINDS_ENUM:
        arms = []
        for k, i in enumerate(p.ifaces):
            arms.append('contract::sv::%sMsg::%s(_) => "i%d"' % ("Contract" + acc, names["__wrapper_variants"][k], k))
        arms.append('contract::sv::%sMsg::%s(_) => "contract"' % ("Contract" + acc, names["__wrapper_variants"][len(p.ifaces)]))
        w('        "%s" => match std::panic::catch_unwind(|| from_json::<<C as ContractApi>::%s>(text.as_bytes())) {' % (kind, wacc))
        w('            Err(_) => json!({"panicked": true}),')
        w('            Ok(Err(e)) => json!({"err": e.to_string()}),')
        w('            Ok(Ok(m)) => { let part = match &m { %s }; json!({"ok": to_json_string(&m).unwrap_or_default(), "part": part, "dbg": format!("{:?}", m)}) }' % ", ".join(arms))
        w("        },")
    w('        _ => json!({"error": "bad kind"}),')
    w("    }")
    w("}")
    # call
    errconv = "|e| e.to_string()"
    w("fn call(op: &Value) -> Value {")
    w("    let mut deps = fresh_deps();")
    w("    prime_storage(&mut deps.storage, op);")
    w("    let (env, info) = setup_env(op);")
    w('    let text = op["json"].as_str().unwrap_or("");')
    w('    let via = op["via"].as_str().unwrap_or("entry");')
    w('    let ep = op["ep"].as_str().unwrap_or("");')
    w("    let res: Value = match (via, ep) {")
    has_migrate = any(m.kind == "migrate" for m in p.methods)
    eps = [("instantiate", "Instantiate", True, True), ("execute", "ContractExec", True, True), ("query", "ContractQuery", False, False),
           ("sudo", "ContractSudo", True, False)]
    if has_migrate:
        eps.append(("migrate", "Migrate", True, False))
    for ep, wacc, mutable, has_info in eps:
        deps_e = "deps.as_mut()" if mutable else "deps.as_ref()"
        ctx_vals = "%s, env.clone()%s" % (deps_e, ", info.clone()" if has_info else "")
        okobs = "resp_obs(&r)" if mutable else "bin_obs(&r)"
        overridden = ep in [{"exec": "execute"}.get(o, o) for o in p.overrides]
        if not overridden:
            w('        ("entry", "%s") => match from_json::<<C as ContractApi>::%s>(text.as_bytes()) {' % (ep, wacc))
            w('            Err(e) => json!({"decode_err": e.to_string()}),')
            w('            Ok(m) => match contract::entry_points::%s(%s, m) { Ok(r) => json!({"ok": %s}), Err(e) => json!({"err": e.to_string()}) },' % (ep, ctx_vals, okobs))
            w("        },")
        w('        ("dispatch", "%s") => match from_json::<<C as ContractApi>::%s>(text.as_bytes()) {' % (ep, wacc))
        w('            Err(e) => json!({"decode_err": e.to_string()}),')
        w('            Ok(m) => match m.dispatch(&C::new(), (%s)) { Ok(r) => json!({"ok": %s}), Err(e) => json!({"err": e.to_string()}) },' % (ctx_vals, okobs))
        w("        },")
        w('        ("mt", "%s") => match svfw::cw_multi_test::Contract::%s(&C::new(), %s, text.as_bytes().to_vec()) { Ok(r) => json!({"ok": %s}), Err(e) => json!({"err": e.to_string(), "err_root": e.root_cause().to_string()}) },' % (
            ep, ep, ctx_vals, okobs))
    # part-level dispatch
    for part, iface in parts:
        for kind, acc, wacc, ep in KINDS_ENUM:
            mutable = kind != "query"
            has_info = kind == "exec"
            deps_e = "deps.as_mut()" if mutable else "deps.as_ref()"
            ctx_vals = "%s, env.clone()%s" % (deps_e, ", info.clone()" if has_info else "")
            okobs = "resp_obs(&r)" if mutable else "bin_obs(&r)"
            w('        ("part:%s", "%s") => match from_json::<%s>(text.as_bytes()) {' % (part, ep, part_ty(part, iface, acc)))
            w('            Err(e) => json!({"decode_err": e.to_string()}),')
            w('            Ok(m) => match m.dispatch(&C::new(), (%s)) { Ok(r) => json!({"ok": %s}), Err(e) => json!({"err": e.to_string()}) },' % (ctx_vals, okobs))
            w("        },")
    w('        _ => json!({"error": format!("no such call {} {}", via, ep)}),')
    w("    };")
    w('    json!({"res": res, "storage": storage_obs(&deps.storage)})')
    w("}")
    # schemas
    w("fn schemas() -> Value {")
    w("    use svfw::cw_schema::QueryResponses;")
    w("    let mut out = serde_json::Map::new();")
    for part, iface in parts:
        w('    out.insert("%s".to_string(), serde_json::to_value(&%s::response_schemas().map_err(|e| e.to_string())).unwrap());' % (part, part_ty(part, iface, "Query")))
        decl = []
        methods = p.methods if iface is None else iface.methods
        for m in methods:
            if m.kind == "query":
                rt = "EchoResp" if m.ret == "echo" else p.concretize(m.args[0].ty, iface).rust()
                decl.append('("%s", serde_json::to_value(&svfw::cw_schema::schema_for!(%s)).unwrap())' % (m.name, rt))
        w('    out.insert("%s.declared".to_string(), json!([%s]));' % (part, ", ".join("[%s.0, %s.1]" % (d, d) for d in decl)))
    w('    out.insert("wrapper".to_string(), serde_json::to_value(&<C as ContractApi>::ContractQuery::response_schemas().map_err(|e| e.to_string())).unwrap());')
    w('    out.insert("wrapper_schema".to_string(), serde_json::to_value(&schemars::schema_for!(<C as ContractApi>::ContractQuery)).unwrap());')
    for part, iface in parts:
        w('    out.insert("%s.schema".to_string(), serde_json::to_value(&schemars::schema_for!(%s)).unwrap());' % (part, part_ty(part, iface, "Query")))
    w("    Value::Object(out)")
    w("}")
    w("pub fn run(op: &Value) -> Value {")
    w('    match op["op"].as_str().unwrap_or("") {')
    w('        "tables" => tables(),')
    w('        "encode" => match encode(op) { Ok(v) => v, Err(e) => json!({"error": e}) },')
    w('        "decode" => decode(op),')
    w('        "decode_wrapper" => decode_wrapper(op),')
    w('        "call" => call(op),')
    w('        "schemas" => schemas(),')
    w('        o => json!({"error": format!("unknown op {}", o)}),')
    w("    }")
    w("}")
    return "\n".join(out) + "\n"


MAIN_RS = """// generated: corpus runner
mod rt;
%(mods)s
use serde_json::{json, Value};
use std::io::{BufRead, Write};

fn dispatch(op: &Value) -> Value {
    match op["prog"].as_u64().unwrap_or(u64::MAX) {
%(arms)s
        _ => json!({"error": "no such program"}),
    }
}

fn main() {
    std::panic::set_hook(Box::new(|_| {}));
    let args: Vec<String> = std::env::args().collect();
    let input = std::fs::File::open(&args[1]).expect("ops file");
    let mut out = std::io::BufWriter::new(std::fs::File::create(&args[2]).expect("out file"));
    for line in std::io::BufReader::new(input).lines() {
        let line = line.unwrap();
        if line.trim().is_empty() { continue; }
        let v: Value = serde_json::from_str(&line).unwrap_or(Value::Null);
        let r = std::panic::catch_unwind(std::panic::AssertUnwindSafe(|| dispatch(&v)))
            .unwrap_or_else(|e| {
                let msg = if let Some(s) = e.downcast_ref::<String>() { s.clone() } else if let Some(s) = e.downcast_ref::<&str>() { s.to_string() } else { "?".into() };
                json!({"panicked": true, "msg": msg})
            });
        writeln!(out, "{}", r).unwrap();
    }
}
"""


def learn_names(progs):
    """Expands every program with the real macros (L1 probe) to learn constructor and variant names."""
    reqs = []
    for pi, p in enumerate(progs):
        reqs.append(("c%d" % pi, "contract", "", p.to_contract().rust_impl()))
        for k, i in enumerate(p.ifaces):
            reqs.append(("c%d_i%d" % (pi, k), "interface", "", p.to_iface(i).rust_trait()))
    res = common.probe_run(reqs, tag="learn")
    out = []
    for pi, p in enumerate(progs):
        names = {}
        f = common.Facts(res.get("c%d" % pi, []))
        if f.status != "accepted":
            out.append({"__rejected": f.status, "__panic": f.one("panic")})
            continue
        lines = canon.canon_contract(f)
        names["contract"] = _ctor_map(lines, p.methods, "")
        wl = [l for l in lines if l.startswith("wrapper ContractExecMsg variants=")]
        names["__wrapper_variants"] = [x.split(":")[0] for x in wl[0].split("=", 1)[1].split(",")] if wl else []
        names["__lines"] = lines
        ok = True
        for k, i in enumerate(p.ifaces):
            fi = common.Facts(res.get("c%d_i%d" % (pi, k), []))
            if fi.status != "accepted":
                ok = False
                out.append({"__rejected": fi.status, "__panic": fi.one("panic")})
                break
            il = canon.canon_iface(fi, i.trait)
            names["i%d" % k] = _ctor_map(il, i.methods, i.trait)
            names["__lines_i%d" % k] = il
        if ok:
            out.append(names)
    return out


def _ctor_map(lines, methods, prefix):
    m = {}
    for kind, base in (("exec", "ExecMsg"), ("query", "QueryMsg"), ("sudo", "SudoMsg")):
        ctors = []
        for l in lines:
            if l.startswith("enum %s%s ctors=" % (prefix, base)):
                ctors = [x for x in l.split("=", 1)[1].split(",") if x]
        ms = [x for x in methods if x.kind == kind]
        for mm, c in zip(ms, ctors):
            m[mm.name] = c
    return m


class Corpus:
    def __init__(self, progs, tag="corpus", mt=False):
        self.progs = progs
        self.tag = tag
        self.mt = mt
        self.names = None
        self.exe = None
        self.dir = None

    def build(self):
        for i, p in enumerate(self.progs):
            p.idx = i
        self.names = learn_names(self.progs)
        srcs = {}
        mods, arms = [], []
        for i, (p, n) in enumerate(zip(self.progs, self.names)):
            if "__rejected" in n:
                continue
            srcs["p%d.rs" % i] = render_program(i, p, n) if not self.mt else \
                render_program(i, p, n).replace('        "schemas" => schemas(),', '        "schemas" => schemas(),\n        "history" => mt_driver::history(op),') + render_mt(i, p, n)
            mods.append("mod p%d;" % i)
            arms.append("        %d => p%d::run(op)," % (i, i))
        srcs["main.rs"] = MAIN_RS % {"mods": "\n".join(mods), "arms": "\n".join(arms)}
        h = hashlib.sha256(json.dumps(srcs, sort_keys=True).encode()).hexdigest()[:10]
        d = os.path.join(CACHE, "crates", "%s" % self.tag)
        self.dir = d
        with common.locked("cargo"):
            os.makedirs(os.path.join(d, "src"), exist_ok=True)
            with open(os.path.join(d, "Cargo.toml"), "w") as f:
                f.write(common.repo_paths(open(os.path.join(SRC, "Cargo.toml")).read()))
            if not os.path.exists(os.path.join(d, "Cargo.lock")):
                shutil.copy(os.path.join(REPO, "Cargo.lock"), os.path.join(d, "Cargo.lock"))
            shutil.copy(os.path.join(SRC, "src", "rt.rs"), os.path.join(d, "src", "rt.rs"))
            for fn in os.listdir(os.path.join(d, "src")):
                if fn not in srcs and fn != "rt.rs":
                    os.unlink(os.path.join(d, "src", fn))
            for fn, text in srcs.items():
                path = os.path.join(d, "src", fn)
                if not os.path.exists(path) or open(path).read() != text:
                    with open(path, "w") as f:
                        f.write(text)
            t0 = time.time()
            tdir = os.path.join(CACHE, "target-corpus")
            p = subprocess.run(["cargo", "build", "--offline", "--message-format=short"], cwd=d,
                               env=common.cargo_env({"CARGO_TARGET_DIR": tdir, "RUSTFLAGS": "-Awarnings"}),
                               capture_output=True, text=True)
            if p.returncode != 0:
                errs = [l for l in p.stderr.splitlines() if "error" in l][:30]
                raise common.BuildError("corpus build failed", "\n".join(errs) + "\n" + p.stderr[-3000:])
            log("corpus %s (%d programs) built in %.1fs" % (self.tag, len(mods), time.time() - t0))
            # keep a private copy of the binary: other checks may rebuild the same crate dir
            exe = os.path.join(tdir, "debug", "corpus")
            mine = os.path.join(CACHE, "work", "corpus_%s_%s" % (self.tag, h))
            shutil.copy(exe, mine)
            self.exe = mine
        return self

    def run(self, ops):
        inp = self.exe + ".%d.in" % os.getpid()
        out = self.exe + ".%d.out" % os.getpid()
        with open(inp, "w") as f:
            for o in ops:
                f.write(json.dumps(o) + "\n")
        p = subprocess.run([self.exe, inp, out], capture_output=True, text=True)
        if p.returncode != 0:
            raise common.BuildError("corpus run failed", p.stderr[-2000:])
        res = [json.loads(l) for l in open(out) if l.strip()]
        os.unlink(inp)
        os.unlink(out)
        if len(res) != len(ops):
            raise common.BuildError("corpus: %d observations for %d ops" % (len(res), len(ops)), "")
        return res

    def cleanup(self):
        if self.exe and os.path.exists(self.exe):
            os.unlink(self.exe)


# ------------------------------------------------------------------------------------------ multitest histories (C12)
def render_mt(idx, p, names):
    """fn history(op): runs one history through the generated proxies on chain A and as raw JSON on chain B."""
    out = []
    w = out.append
    w("pub mod mt_driver {")
    w("    use super::*;")
    w("    use svfw::cw_multi_test::{Executor, IntoBech32};")
    w("    use svfw::cw_std::{coin, Addr, Binary, Coin, CosmosMsg, WasmMsg, WasmQuery, QueryRequest, Empty};")
    w("    use super::contract::sv::mt::%sProxy;" % p.name)
    for k, i in enumerate(p.ifaces):
        w("    use super::%s::sv::mt::%sProxy;" % (i.mod, i.trait))
    w("    type MtApp = svfw::cw_multi_test::App;")
    w("    fn mk(users: &[Addr]) -> svfw::multitest::App<MtApp> {")
    w("        let u = users.to_vec();")
    w("        svfw::multitest::App::new(svfw::cw_multi_test::App::new(move |router, _api, storage| {")
    w("            for a in &u { router.bank.init_balance(storage, a, vec![coin(1000, \"uatom\"), coin(1000, \"ujuno\")]).unwrap(); }")
    w("        }))")
    w("    }")
    w("    fn coins(v: &Value) -> Vec<Coin> { serde_json::from_value(v.clone()).unwrap_or_default() }")
    w("    fn state(app: &svfw::multitest::App<MtApp>, contracts: &[Addr], users: &[Addr]) -> Value {")
    w("        let a = app.app();")
    w("        let cs: Vec<Value> = contracts.iter().map(|c| {")
    w("            let dump: Vec<(String, String)> = a.dump_wasm_raw(c).into_iter().map(|(k, v)| (Binary::from(k).to_base64(), Binary::from(v).to_base64())).collect();")
    w("            let info = a.contract_data(c).map(|d| format!(\"{:?}\", d)).unwrap_or_else(|e| e.to_string());")
    w("            let bal = a.wrap().query_all_balances(c).map(|b| format!(\"{:?}\", b)).unwrap_or_default();")
    w("            json!({\"addr\": c.to_string(), \"storage\": dump, \"info\": info, \"balance\": bal})")
    w("        }).collect();")
    w("        let us: Vec<String> = users.iter().map(|u| a.wrap().query_all_balances(u).map(|b| format!(\"{:?}\", b)).unwrap_or_default()).collect();")
    w("        json!({\"contracts\": cs, \"users\": us})")
    w("    }")
    w("    fn raw(app: &svfw::multitest::App<MtApp>, sender: &Addr, msg: WasmMsg) -> Result<svfw::cw_multi_test::AppResponse, String> {")
    w("        app.app_mut().execute(sender.clone(), CosmosMsg::Wasm(msg)).map_err(|e| e.root_cause().to_string())")
    w("    }")
    w("    pub fn history(op: &Value) -> Value {")
    w("        let users: Vec<Addr> = [\"alice\", \"bob\", \"carol\"].iter().map(|s| s.into_bech32()).collect();")
    w("        let app_a = mk(&users);")
    w("        let app_b = mk(&users);")
    w("        let code_a = super::contract::sv::mt::CodeId::<C, _>::store_code(&app_a);")
    w("        let code_b = app_b.app_mut().store_code(Box::new(C::new()));")
    w("        let mut proxies: Vec<svfw::multitest::Proxy<MtApp, C>> = vec![];")
    w("        let mut addrs_a: Vec<Addr> = vec![];")
    w("        let mut addrs_b: Vec<Addr> = vec![];")
    w("        let mut out: Vec<Value> = vec![];")
    w("        for step in op[\"steps\"].as_array().cloned().unwrap_or_default() {")
    w("            let args = &step[\"args\"];")
    w("            let text = step[\"json\"].as_str().unwrap_or(\"\").to_string();")
    w("            let sender = users[step[\"sender\"].as_u64().unwrap_or(0) as usize % users.len()].clone();")
    w("            let funds = coins(&step[\"funds\"]);")
    w("            let target = step[\"target\"].as_u64().unwrap_or(0) as usize;")
    w("            let kind = step[\"k\"].as_str().unwrap_or(\"\");")
    w("            let part = step[\"part\"].as_str().unwrap_or(\"contract\");")
    w("            let method = step[\"method\"].as_str().unwrap_or(\"\");")
    w("            let (ra, rb): (Value, Value) = match kind {")
    # ---- instantiate
    inst = [m for m in p.methods if m.kind == "instantiate"][0]
    lets = ["let a%d: %s = match arg(args, %d) { Ok(v) => v, Err(e) => { out.push(json!({\"error\": e})); continue; } };" % (ai, p.concretize(a.ty).rust(), ai)
            for ai, a in enumerate(inst.args)]
    argl = ", ".join("a%d" % ai for ai in range(len(inst.args)))
    w("                \"inst\" => {")
    for l in lets:
        w("                    " + l)
    w("                    let label = step[\"label\"].as_str().map(|s| s.to_string());")
    w("                    let admin = step[\"admin\"].as_u64().map(|i| users[i as usize % users.len()].to_string());")
    w("                    let salt = step[\"salt\"].as_str().map(|s| s.as_bytes().to_vec());")
    w("                    let mut b = code_a.instantiate(%s).with_funds(&funds);" % argl)
    w("                    if let Some(l) = &label { b = b.with_label(l); }")
    w("                    if let Some(a) = &admin { b = b.with_admin(Some(a.as_str())); }")
    w("                    if let Some(s) = &salt { b = b.with_salt(Some(s.as_slice())); }")
    w("                    let ra = match b.call(&sender) { Ok(px) => { let a = px.contract_addr.clone(); addrs_a.push(a.clone()); proxies.push(px); json!({\"ok\": {\"addr\": a.to_string()}}) }, Err(e) => json!({\"err\": e.to_string()}) };")
    w("                    let lbl = label.clone().unwrap_or_else(|| \"Contract\".to_string());")
    w("                    let msg = match &salt {")
    w("                        Some(s) => WasmMsg::Instantiate2 { admin: admin.clone(), code_id: code_b, label: lbl, msg: Binary::from(text.as_bytes()), funds: funds.clone(), salt: Binary::from(s.clone()) },")
    w("                        None => WasmMsg::Instantiate { admin: admin.clone(), code_id: code_b, msg: Binary::from(text.as_bytes()), funds: funds.clone(), label: lbl },")
    w("                    };")
    w("                    let rb = match raw(&app_b, &sender, msg) {")
    w("                        Ok(r) => match r.data.as_ref().map(|d| svfw::cw_utils::parse_instantiate_response_data(d.as_slice())) {")
    w("                            Some(Ok(d)) => { let a = Addr::unchecked(d.contract_address); addrs_b.push(a.clone()); json!({\"ok\": {\"addr\": a.to_string()}}) }")
    w("                            other => json!({\"err\": format!(\"no address in instantiate response: {:?}\", other.is_some())}),")
    w("                        },")
    w("                        Err(e) => json!({\"err\": e}),")
    w("                    };")
    w("                    (ra, rb)")
    w("                }")
    # ---- exec / query / sudo per part & method
    parts = [("contract", None)] + [("i%d" % k, i) for k, i in enumerate(p.ifaces)]
    w("                \"exec\" | \"query\" | \"sudo\" => {")
    w("                    if target >= proxies.len() || target >= addrs_b.len() { out.push(json!({\"skipped\": \"no such contract\"})); continue; }")
    w("                    let px = &proxies[target];")
    w("                    let addr_b = addrs_b[target].clone();")
    w("                    let ra: Value = match (kind, part, method) {")
    for part, iface in parts:
        methods = p.methods if iface is None else iface.methods
        for m in methods:
            if m.kind not in ("exec", "query", "sudo"):
                continue
            lets = ["let a%d: %s = match arg(args, %d) { Ok(v) => v, Err(e) => { out.push(json!({\"error\": e})); continue; } };" % (
                ai, p.concretize(a.ty, iface).rust(), ai) for ai, a in enumerate(m.args)]
            argl = ", ".join("a%d" % ai for ai in range(len(m.args)))
            hname = names[part][m.name]
            if m.kind == "exec":
                call = "match px.%s(%s).with_funds(&funds).call(&sender) { Ok(r) => json!({\"ok\": app_resp_obs(&r)}), Err(e) => json!({\"err\": e.to_string()}) }" % (hname, argl)
            elif m.kind == "query":
                call = "match px.%s(%s) { Ok(r) => json!({\"ok\": serde_json::to_value(&r).unwrap_or(Value::Null)}), Err(e) => json!({\"err\": e.to_string()}) }" % (hname, argl)
            else:
                call = "match px.%s(%s) { Ok(r) => json!({\"ok\": app_resp_obs(&r)}), Err(e) => json!({\"err\": e.to_string()}) }" % (hname, argl)
            w("                        (\"%s\", \"%s\", \"%s\") => { %s %s }" % (m.kind, part, m.name, " ".join(lets), call))
    w("                        _ => json!({\"error\": \"no such method\"}),")
    w("                    };")
    w("                    let rb: Value = match kind {")
    w("                        \"exec\" => match raw(&app_b, &sender, WasmMsg::Execute { contract_addr: addr_b.to_string(), msg: Binary::from(text.as_bytes()), funds: funds.clone() }) { Ok(mut r) => { /* the chain's execute_contract operation = execute + unwrapping of the response data envelope */ r.data = r.data.and_then(|d| svfw::cw_utils::parse_execute_response_data(d.as_slice()).ok().and_then(|x| x.data)); json!({\"ok\": app_resp_obs(&r)}) }, Err(e) => json!({\"err\": e}) },")
    w("                        \"query\" => { let req: QueryRequest<Empty> = QueryRequest::Wasm(WasmQuery::Smart { contract_addr: addr_b.to_string(), msg: Binary::from(text.as_bytes()) });")
    w("                            match app_b.app().wrap().query::<Value>(&req) { Ok(v) => json!({\"ok\": v}), Err(e) => json!({\"err\": e.to_string()}) } }")
    w("                        _ => match app_b.app_mut().sudo(svfw::cw_multi_test::SudoMsg::Wasm(svfw::cw_multi_test::WasmSudo { contract_addr: addr_b.clone(), message: Binary::from(text.as_bytes()) })) { Ok(r) => json!({\"ok\": app_resp_obs(&r)}), Err(e) => json!({\"err\": e.root_cause().to_string()}) },")
    w("                    };")
    w("                    (ra, rb)")
    w("                }")
    # ---- migrate
    mig = [m for m in p.methods if m.kind == "migrate"]
    if mig:
        m = mig[0]
        lets = ["let a%d: %s = match arg(args, %d) { Ok(v) => v, Err(e) => { out.push(json!({\"error\": e})); continue; } };" % (ai, p.concretize(a.ty).rust(), ai)
                for ai, a in enumerate(m.args)]
        argl = ", ".join("a%d" % ai for ai in range(len(m.args)))
        w("                \"migrate\" => {")
        w("                    if target >= proxies.len() || target >= addrs_b.len() { out.push(json!({\"skipped\": \"no such contract\"})); continue; }")
        for l in lets:
            w("                    " + l)
        w("                    let ra = match proxies[target].%s(%s).call(&sender, code_a.code_id()) { Ok(r) => json!({\"ok\": app_resp_obs(&r)}), Err(e) => json!({\"err\": e.to_string()}) };" % (m.name, argl))
        w("                    let rb = match raw(&app_b, &sender, WasmMsg::Migrate { contract_addr: addrs_b[target].to_string(), new_code_id: code_b, msg: Binary::from(text.as_bytes()) }) { Ok(r) => json!({\"ok\": app_resp_obs(&r)}), Err(e) => json!({\"err\": e}) };")
        w("                    (ra, rb)")
        w("                }")
    w("                _ => (json!({\"error\": \"bad step\"}), json!({\"error\": \"bad step\"})),")
    w("            };")
    w("            out.push(json!({\"a\": ra, \"b\": rb, \"state_a\": state(&app_a, &addrs_a, &users), \"state_b\": state(&app_b, &addrs_b, &users)}));")
    w("        }")
    w("        Value::Array(out)")
    w("    }")
    w("}")
    return "\n".join(out) + "\n"
