"""Shared infrastructure: paths, locked builds, probe runner, Coq runner, evidence, reporting."""
import fcntl
import hashlib
import json
import os
import re
import subprocess
import sys
import time
from concurrent.futures import ThreadPoolExecutor
from contextlib import contextmanager

VERIF = os.path.dirname(os.path.dirname(os.path.dirname(os.path.abspath(__file__))))
REPO = os.environ.get("VERIF_REPO", "/repo")
CACHE = os.environ.get("VERIF_CACHE", "/var/tmp/sylvia-verif")
TARGET = os.path.join(CACHE, "target")
WORK = os.path.join(CACHE, "work")
COQ = os.path.join(VERIF, "coq")
NCPU = min(16, os.cpu_count() or 4)

os.makedirs(WORK, exist_ok=True)


def repo_paths(text):
    """Harness manifests name the framework as /repo/...; VERIF_REPO redirects them (used to run the checks against
    a patched scratch worktree without touching /repo)."""
    return text if REPO == "/repo" else text.replace("/repo/", REPO.rstrip("/") + "/")


def log(*a):
    print("[verif]", *a, file=sys.stderr, flush=True)


@contextmanager
def locked(name):
    os.makedirs(CACHE, exist_ok=True)
    path = os.path.join(CACHE, name + ".lock")
    with open(path, "w") as f:
        fcntl.flock(f, fcntl.LOCK_EX)
        try:
            yield
        finally:
            fcntl.flock(f, fcntl.LOCK_UN)


def cargo_env(extra=None):
    env = dict(os.environ)
    env["CARGO_NET_OFFLINE"] = "true"
    env["CARGO_TARGET_DIR"] = TARGET
    env.pop("RUST_BACKTRACE", None)
    env["RUST_BACKTRACE"] = "0"
    if extra:
        env.update(extra)
    return env


_sysroot_lib = None


def rust_lib_path():
    global _sysroot_lib
    if _sysroot_lib is None:
        root = subprocess.check_output(["rustc", "--print", "sysroot"], text=True).strip()
        host = subprocess.check_output(["rustc", "-vV"], text=True)
        m = re.search(r"host: (\S+)", host)
        _sysroot_lib = os.path.join(root, "lib", "rustlib", m.group(1), "lib") + ":" + os.path.join(root, "lib")
    return _sysroot_lib


class BuildError(Exception):
    def __init__(self, what, output):
        super().__init__(what)
        self.what = what
        self.output = output


# ----------------------------------------------------------------------------------------------
# L1 probe

PROBE_SRC = os.path.join(VERIF, "harness", "probe", "probe.rs")
_probe_bin = None


def build_probe():
    """Builds sylvia-derive's test binary from /repo's working tree with the hook enabled."""
    global _probe_bin
    if _probe_bin:
        return _probe_bin
    with locked("cargo"):
        cmd = ["cargo", "test", "--offline", "--release", "-p", "sylvia-derive",
               "--features", "verif-hook,mt,cosmwasm_1_2", "--no-run", "--message-format=json"]
        t0 = time.time()
        p = subprocess.run(cmd, cwd=REPO, env=cargo_env({"SYLVIA_VERIF_HARNESS": PROBE_SRC}),
                           capture_output=True, text=True)
        if p.returncode != 0:
            msgs = []
            for line in p.stdout.splitlines():
                try:
                    d = json.loads(line)
                except Exception:
                    continue
                if d.get("reason") == "compiler-message" and d["message"].get("level") == "error":
                    msgs.append(d["message"].get("rendered", ""))
            raise BuildError("probe build failed", "\n".join(msgs) + p.stderr[-4000:])
        exe = None
        for line in p.stdout.splitlines():
            try:
                d = json.loads(line)
            except Exception:
                continue
            if d.get("reason") == "compiler-artifact" and d.get("executable") and \
                    d.get("target", {}).get("name") == "sylvia_derive":
                exe = d["executable"]
        if not exe:
            raise BuildError("probe binary not found", p.stdout[-2000:])
        log("probe built in %.1fs: %s" % (time.time() - t0, exe))
        _probe_bin = exe
        return exe


def _unesc(s):
    out = []
    i = 0
    while i < len(s):
        c = s[i]
        if c == "\\" and i + 1 < len(s):
            n = s[i + 1]
            out.append({"t": "\t", "n": "\n", "r": "\r", "\\": "\\"}.get(n, n))
            i += 2
        else:
            out.append(c)
            i += 1
    return "".join(out)


def render_requests(reqs):
    parts = []
    for (rid, kind, attr, item) in reqs:
        parts.append("#REQ %s %s\n#ATTR\n%s\n#ITEM\n%s\n#END\n" % (rid, kind, attr, item))
    return "".join(parts)


def _run_probe_shard(exe, idx, reqs, tag):
    req = os.path.join(WORK, "probe_%s_%d_%d.req" % (tag, os.getpid(), idx))
    out = os.path.join(WORK, "probe_%s_%d_%d.out" % (tag, os.getpid(), idx))
    with open(req, "w") as f:
        f.write(render_requests(reqs))
    env = dict(os.environ)
    env["LD_LIBRARY_PATH"] = rust_lib_path() + ":" + env.get("LD_LIBRARY_PATH", "")
    env["SYLVIA_VERIF_REQ"] = req
    env["SYLVIA_VERIF_OUT"] = out
    env["RUST_BACKTRACE"] = "0"
    p = subprocess.run([exe, "verif_hook::verif_probe", "--exact", "--test-threads=1"],
                       env=env, capture_output=True, text=True)
    if p.returncode != 0 or not os.path.exists(out):
        raise BuildError("probe run failed", p.stdout[-2000:] + p.stderr[-2000:])
    res = {}
    with open(out) as f:
        for line in f:
            line = line.rstrip("\n")
            if not line:
                continue
            parts = line.split("\t")
            if len(parts) < 3:
                parts += [""] * (3 - len(parts))
            rid, key, val = parts[0], _unesc(parts[1]), _unesc(parts[2])
            res.setdefault(rid, []).append((key, val))
    os.unlink(req)
    os.unlink(out)
    return res


def probe_run(reqs, shards=NCPU, tag="x"):
    """reqs: list of (id, kind, attr_src, item_src). Returns {id: [(key, value), ...]}."""
    exe = build_probe()
    if not reqs:
        return {}
    shards = max(1, min(shards, len(reqs)))
    chunks = [reqs[i::shards] for i in range(shards)]
    res = {}
    with ThreadPoolExecutor(max_workers=shards) as ex:
        for r in ex.map(lambda a: _run_probe_shard(exe, a[0], a[1], tag), list(enumerate(chunks))):
            res.update(r)
    return res


class Facts:
    """Convenience view over the (key, value) list of one probe response."""

    def __init__(self, kv):
        self.kv = kv
        self.d = {}
        for k, v in kv:
            self.d.setdefault(k, []).append(v)

    def one(self, key, default=None):
        v = self.d.get(key)
        return v[0] if v else default

    def all(self, key):
        return self.d.get(key, [])

    @property
    def status(self):
        return self.one("status", "missing")

    def keys_matching(self, rx):
        r = re.compile(rx)
        return [k for k in self.d if r.search(k)]


# ----------------------------------------------------------------------------------------------
# Coq


def ensure_generated():
    """The generated model files must exist for coq_makefile's dependency scan, whichever check runs first (each check
    regenerates the ones its property depends on; this only fills in missing ones, e.g. when no setup was run)."""
    gen = os.path.join(COQ, "theories", "Model")
    missing = [n for n in ("GenTables.v", "GenLib.v", "GenTemplates.v", "GenImp.v", "GenImpMacro.v", "GenImpLeg.v", "GenImpAttr.v", "GenImpFold.v", "GenImpParse.v", "GenImpCheck.v", "GenImpGenerics.v", "GenImpVariants.v", "GenImpFields.v", "GenImpReplyData.v", "GenImpBridge.v") if not os.path.exists(os.path.join(gen, n))]
    if not missing:
        return
    from . import translate, imp_translate
    if "GenTables.v" in missing:
        translate.write_gentables(translate.generate()[0])
    if "GenLib.v" in missing:
        translate.write_genlib(translate.generate_lib())
    if "GenTemplates.v" in missing:
        translate.write_gentemplates(translate.generate_templates()[0])
    if any(n.startswith("GenImp") for n in missing):
        imp_translate.write(imp_translate.generate()[0])


def coq_make(targets=None, timeout=1500):
    """Full .vo build (never -vos) of the given targets (relative to coq/), default all."""
    ensure_generated()
    with locked("coq"):
        mk = os.path.join(COQ, "Makefile")
        cp = os.path.join(COQ, "_CoqProject")
        if not os.path.exists(mk) or os.path.getmtime(mk) < os.path.getmtime(cp):
            subprocess.run(["coq_makefile", "-f", "_CoqProject", "-o", "Makefile"], cwd=COQ, check=True,
                           capture_output=True)
        cmd = ["make", "-j%d" % NCPU] + (list(targets) if targets else [])
        t0 = time.time()
        try:
            p = subprocess.run(["bash", "-c", "ulimit -s unlimited 2>/dev/null; exec \"$@\"", "--"] + cmd, cwd=COQ,
                               capture_output=True, text=True, timeout=timeout)
        except subprocess.TimeoutExpired:
            return False, "timeout", time.time() - t0
        return p.returncode == 0, p.stdout + p.stderr, time.time() - t0


def coq_hygiene():
    """Greps the development for forbidden constructs. Returns list of offending lines."""
    bad = []
    rx = re.compile(r"\b(Admitted|admit|Axiom|Axioms|Parameter|Parameters|Conjecture|Conjectures|Hypothesis|Hypotheses|Variable|Variables)\b"
                    r"|Unset\s+Guard|bypass_check|type-in-type|impredicative-set|Admit\s+Obligations|Unset\s+Universe\s+Checking|Unset\s+Positivity")
    for root, _, files in os.walk(os.path.join(COQ, "theories")):
        for fn in sorted(files):
            if not fn.endswith(".v"):
                continue
            path = os.path.join(root, fn)
            depth = 0  # section depth: Variable/Hypothesis are allowed inside sections only
            text = open(path).read()
            # string literals declare nothing (a diagnostic text of sylvia reads "Parameters not allowed .."): blanked first
            text = re.sub(r'"(?:[^"]|"")*"', lambda m: '"' + re.sub(r"[^\n]", " ", m.group(0)[1:-1]) + '"', text)
            text = re.sub(r"\(\*.*?\*\)", lambda m: " " * len(m.group(0)), text, flags=re.S)
            for ln, line in enumerate(text.splitlines(), 1):
                if re.match(r"\s*Section\s", line):
                    depth += 1
                if re.match(r"\s*End\s", line) and depth > 0:
                    depth -= 1
                m = rx.search(line)
                if m:
                    word = m.group(0)
                    if word.split()[0] in ("Variable", "Variables", "Hypothesis", "Hypotheses") and depth > 0:
                        continue
                    bad.append("%s:%d: %s" % (os.path.relpath(path, VERIF), ln, line.strip()))
    return bad


def parse_coq_string_lists(text):
    """Parses every `= [ "..."; "..." ] : list string` block printed by Eval. Returns list of lists."""
    res = []
    i = 0
    n = len(text)
    while True:
        j = text.find("= [", i)
        if j < 0:
            break
        k = j + 3
        cur = []
        while k < n:
            c = text[k]
            if c == '"':
                k += 1
                buf = []
                while k < n:
                    if text[k] == '"':
                        if k + 1 < n and text[k + 1] == '"':
                            buf.append('"')
                            k += 2
                            continue
                        k += 1
                        break
                    buf.append(text[k])
                    k += 1
                cur.append("".join(buf))
            elif c == "]":
                k += 1
                break
            else:
                k += 1
        res.append(cur)
        i = k
    return res


def coq_string(s):
    """Python str -> Coq string literal (ASCII only)."""
    for ch in s:
        if ord(ch) > 126 or ord(ch) < 32:
            raise ValueError("non printable/ASCII char in Coq string: %r" % s)
    return '"' + s.replace('"', '""') + '"'


def coq_list(items):
    return "[" + "; ".join(items) + "]"


def _run_coq_file(path, timeout):
    cmd = "ulimit -s unlimited 2>/dev/null; exec coqc -noglob -q -Q %s/theories SV %s" % (COQ, path)
    try:
        p = subprocess.run(["bash", "-c", cmd], cwd=os.path.dirname(path), capture_output=True, text=True,
                           timeout=timeout)
    except subprocess.TimeoutExpired:
        return None, "timeout"
    if p.returncode != 0:
        return None, p.stdout[-3000:] + p.stderr[-3000:]
    return p.stdout, None


def coq_eval(header, exprs, shards=NCPU, timeout=900, tag="ev", per_file=400):
    """Evaluates each Gallina expression (of type list string) with vm_compute.

    header: text placed at the top of each generated file (Require Imports ...).
    Returns a list of list-of-strings aligned with exprs."""
    if not exprs:
        return []
    nfiles = max(1, min(shards, (len(exprs) + per_file - 1) // per_file if len(exprs) > per_file else shards))
    nfiles = min(nfiles, len(exprs))
    chunks = [list(range(i, len(exprs), nfiles)) for i in range(nfiles)]
    d = os.path.join(WORK, "coq_%s_%d" % (tag, os.getpid()))
    os.makedirs(d, exist_ok=True)
    paths = []
    for ci, idxs in enumerate(chunks):
        path = os.path.join(d, "cases_%d.v" % ci)
        with open(path, "w") as f:
            f.write(header + "\nSet Printing Width 10000000.\nSet Printing Depth 10000000.\n")
            for i in idxs:
                f.write("Eval vm_compute in (%s).\n" % exprs[i])
        paths.append(path)
    out = [None] * len(exprs)
    with ThreadPoolExecutor(max_workers=nfiles) as ex:
        results = list(ex.map(lambda p: _run_coq_file(p, timeout), paths))
    for ci, (stdout, err) in enumerate(results):
        if err is not None:
            raise BuildError("coq evaluation failed (%s)" % paths[ci], err)
        lists = parse_coq_string_lists(stdout)
        if len(lists) != len(chunks[ci]):
            raise BuildError("coq evaluation: expected %d results, got %d (%s)" % (len(chunks[ci]), len(lists), paths[ci]),
                             stdout[-2000:])
        for i, l in zip(chunks[ci], lists):
            out[i] = l
    for p in paths:
        for ext in ("", "o", "ok", "os"):
            try:
                os.unlink(p + ext if ext else p)
            except OSError:
                pass
        for suf in (".vo", ".vok", ".vos", ".glob"):
            try:
                os.unlink(p[:-2] + suf)
            except OSError:
                pass
    try:
        os.rmdir(d)
    except OSError:
        pass
    return out


# ----------------------------------------------------------------------------------------------
# evidence / reporting

def sha(s):
    return hashlib.sha256(s.encode()).hexdigest()[:12]


def load_known_findings():
    path = os.path.join(VERIF, "known_findings.json")
    if not os.path.exists(path):
        return {"findings": [], "fixed": []}
    return json.load(open(path))


def write_json(path, obj):
    os.makedirs(os.path.dirname(path), exist_ok=True)
    tmp = path + ".tmp%d" % os.getpid()
    with open(tmp, "w") as f:
        json.dump(obj, f, indent=1, sort_keys=True, default=str)
        f.write("\n")
    os.replace(tmp, path)
