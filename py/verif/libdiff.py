"""L3: build and run the libdiff harness crate against /repo's current sylvia."""
import json
import os
import shutil
import subprocess
import time

from . import common
from .common import VERIF, CACHE, REPO, log

SRC = os.path.join(VERIF, "harness", "libdiff")
DST = os.path.join(CACHE, "crates", "libdiff")
_bin = None


def sync_crate(src, dst):
    os.makedirs(dst, exist_ok=True)
    subprocess.run(["rsync", "-a", "--delete", "--exclude", "Cargo.lock", "--exclude", "target", src + "/", dst + "/"], check=True)
    if REPO != "/repo":
        mp = os.path.join(dst, "Cargo.toml")
        t = open(mp).read()
        with open(mp, "w") as f:
            f.write(common.repo_paths(t))
    lock = os.path.join(dst, "Cargo.lock")
    if not os.path.exists(lock):
        shutil.copy(os.path.join(REPO, "Cargo.lock"), lock)


def build():
    global _bin
    if _bin:
        return _bin
    with common.locked("cargo"):
        sync_crate(SRC, DST)
        t0 = time.time()
        p = subprocess.run(["cargo", "build", "--offline", "--release"], cwd=DST, env=common.cargo_env(),
                           capture_output=True, text=True)
        if p.returncode != 0:
            raise common.BuildError("libdiff build failed", p.stderr[-4000:])
        log("libdiff built in %.1fs" % (time.time() - t0))
    _bin = os.path.join(common.TARGET, "release", "libdiff")
    return _bin


def setup():
    build()


def run(ops, tag="l3"):
    """ops: list of dicts. Returns list of dict observations."""
    exe = build()
    inp = os.path.join(common.WORK, "libdiff_%s_%d.in" % (tag, os.getpid()))
    out = os.path.join(common.WORK, "libdiff_%s_%d.out" % (tag, os.getpid()))
    with open(inp, "w") as f:
        for o in ops:
            f.write(json.dumps(o) + "\n")
    p = subprocess.run([exe, inp, out], capture_output=True, text=True)
    if p.returncode != 0:
        raise common.BuildError("libdiff run failed", p.stderr[-2000:])
    res = [json.loads(l) for l in open(out) if l.strip()]
    os.unlink(inp)
    os.unlink(out)
    if len(res) != len(ops):
        raise common.BuildError("libdiff: %d observations for %d ops" % (len(res), len(ops)), "")
    return res
