"""Canonical `key=value` lines from the probe's dump of a contract / interface expansion, in the
format of coq/theories/Model/Show.v."""
import re

from .common import Facts


def nows(s):
    return "".join(s.split())


def parse_generics(v):
    m = re.match(r"generics=\[(.*?)\];where=\[(.*?)\](?:;(.*))?$", v, flags=re.S)
    if not m:
        return [], [], v
    gens = [nows(x) for x in m.group(1).split(" ,, ") if x.strip()]
    wh = [nows(x) for x in m.group(2).split(" ,, ") if x.strip()]
    return gens, wh, m.group(3) or ""


def strip_attr(a):
    a = nows(a)
    if a.startswith("#[") and a.endswith("]"):
        return a[2:-1]
    return a


FIXED_TYPE_ATTR_PREFIXES = ("allow(clippy::derive_partial_eq_without_eq)", "derive(", "schemars(crate=",
                            "query_responses(crate=", "serde(crate=")


MACRO_DERIVES = re.compile(r"(?:(?:\w+::)*(?:serde::Serialize|serde::Deserialize|schemars::JsonSchema|cw_schema::QueryResponses)|Clone|Debug|PartialEq)")


def own_type_attr(a):
    """an attribute the macro itself puts on every generated message type (in whatever order and however grouped):
    the clippy allow, derives of its standard set, and the crate = ".." helpers of serde / schemars / cw_schema"""
    if a.startswith("allow(clippy::derive_partial_eq_without_eq)"):
        return True
    if a.startswith(("schemars(crate=", "query_responses(crate=", "serde(crate=")):
        return True
    m = re.fullmatch(r"derive\((.*)\)", a)
    if m:
        items = [x for x in m.group(1).split(",") if x]
        return bool(items) and all(MACRO_DERIVES.fullmatch(x) for x in items)
    return False


def forwarded_type_attrs(attrs):
    """Attributes of a generated enum/struct minus the macro's own head (the leading run of attributes of its standard
    set) and the fixed tail (serde rename_all)."""
    a = [strip_attr(x) for x in attrs]
    i = 0
    while i < len(a) and own_type_attr(a[i]):
        i += 1
    j = len(a)
    if j > i and a[j - 1].startswith('serde(rename_all="snake_case"'):
        j -= 1
    return a[i:j]


def fields_of(f, path):
    """ordered list of (name, ty, [attrs]) for fields under `path` (enum variant or struct)."""
    out = []
    prefix = path + "::"
    for k, v in f.kv:
        if k.endswith("|field") and k.startswith(prefix) and "::" not in k[len(prefix):-len("|field")]:
            name = k[len(prefix):-len("|field")]
            m = re.match(r"vis=(.*?);ty=(.*)$", v, flags=re.S)
            ty = nows(m.group(2)) if m else nows(v)
            attrs = [nows(a) for a in f.all(prefix + name + "|attr")]
            out.append((name, ty, attrs))
    return out


def show_fields(fields):
    return ";".join("%s:%s[%s]" % (n, t, "|".join(a)) for n, t, a in fields)


def find_inherent_impls(f, mod, type_name):
    """every inherent impl block of the type: [(path, generics, where)]"""
    out = []
    for k, v in f.kv:
        if k.startswith(mod + "::impl#") and k.endswith("|impl"):
            gens, wh, rest = parse_generics(v)
            m = re.match(r"trait=(.*?);self=(.*)$", rest, flags=re.S)
            if not m:
                continue
            if m.group(1).strip() == "" and re.match(r"%s\b" % re.escape(type_name), m.group(2).strip()):
                out.append((k[:-len("|impl")], gens, wh))
    return out


def impl_with_fn(f, mod, type_name, fn):
    """the inherent impl block of the type that defines `fn` (the generated code may spread the methods over several
    blocks), else the first one"""
    impls = find_inherent_impls(f, mod, type_name)
    for path, gens, wh in impls:
        if fn in impl_fns(f, path):
            return path, gens, wh
    return impls[0] if impls else (None, [], [])


def all_impl_fns(f, mod, type_name):
    out = []
    for path, _, _ in find_inherent_impls(f, mod, type_name):
        out.extend(impl_fns(f, path))
    return out


def find_inherent_impl(f, mod, type_name):
    for k, v in f.kv:
        if k.startswith(mod + "::impl#") and k.endswith("|impl"):
            gens, wh, rest = parse_generics(v)
            m = re.match(r"trait=(.*?);self=(.*)$", rest, flags=re.S)
            if not m:
                continue
            if m.group(1).strip() == "" and re.match(r"%s\b" % re.escape(type_name), m.group(2).strip()):
                return k[:-len("|impl")], gens, wh
    return None, [], []


def impl_fns(f, impl_path):
    out = []
    for k, v in f.kv:
        if k.startswith(impl_path + "::") and k.endswith("|fn"):
            out.append(k[len(impl_path) + 2:-3])
    return out


def split_depth(s, sep):
    """split a token string at `sep` tokens outside every bracket"""
    out, depth, cur = [], 0, []
    for t in s.split(" "):
        if t in ("(", "[", "{"):
            depth += 1
        elif t in (")", "]", "}"):
            depth -= 1
        if t == sep and depth == 0:
            out.append(" ".join(cur))
            cur = []
        else:
            cur.append(t)
    out.append(" ".join(cur))
    return out


def retok(s):
    """token string with every bracket and separator as its own token (proc_macro2 glues `(ctx)` and `f (`)"""
    return " ".join(re.sub(r"([()\[\]{},;])", r" \1 ", s).split())


def untok(s):
    """back to the spelling proc_macro2 prints"""
    s = re.sub(r"\( ", "(", s)
    s = re.sub(r" \)", ")", s)
    s = re.sub(r"\[ ", "[", s)
    s = re.sub(r" \]", "]", s)
    return s


def norm_expr(body):
    """A generated expression brought to the spelling the templates use: the bindings of a block `{ let a = E ; ... tail }`
    are inlined (each is a plain name bound once to a call or a path), and `Result::map_err(x, f)` is written
    `x.map_err(f)`. Anything else is returned as it is."""
    t = retok(body)
    changed = True
    while changed:
        changed = False
        if t.startswith("{ ") and t.endswith(" }") and len(split_depth(t, "}")) == 2 and split_depth(t, "}")[1] == "":
            inner = t[2:-2]
            parts = split_depth(inner, ";")
            if len(parts) > 1 and all(re.match(r"let \w+ = ", x) for x in parts[:-1]) and parts[-1].strip():
                tail = parts[-1]
                for stm in reversed(parts[:-1]):
                    m = re.match(r"let (\w+) = (.*)$", stm)
                    name, e = m.group(1), m.group(2)
                    if len(re.findall(r"(?<!\. )(?<!:: )\b%s\b" % re.escape(name), tail)) != 1:
                        return body
                    tail = re.sub(r"(?<!\. )(?<!:: )\b%s\b" % re.escape(name), lambda _m: e, tail, count=1)
                t = tail
                changed = True
            elif len(parts) == 1:
                t = inner
                changed = True
        # eta-expanded conversions: `|e| Into::into(e)`, `|e| e.into()` are `Into::into`; `ctx.into()` is `Into::into(ctx)`
        t2 = re.sub(r"\| (\w+) \| (?:Into :: into|From :: from) \( \1 \)", "Into :: into", t)
        t2 = re.sub(r"\| (\w+) \| \1 \. into \( \)", "Into :: into", t2)
        t2 = re.sub(r"(?<!\. )(?<!:: )\bctx \. into \( \)", "Into :: into ( ctx )", t2)
        # `match E { Ok(a) => Ok(a), Err(b) => Err(Into::into(b)) }` is `E.map_err(Into::into)`
        mm = re.match(r"match (.*) \{ Ok \( (\w+) \) => Ok \( \2 \) , Err \( (\w+) \) => Err \( (?:Into :: into|From :: from) \( \3 \) \) ,? \}$", t2)
        if mm:
            t2 = "%s . map_err ( Into :: into )" % mm.group(1)
        # `Ok(E?)` converts the error with From::from and rewraps the value: `E.map_err(Into::into)`
        mo = re.match(r"Ok \( (.*) \? \)$", t2)
        if mo and len(split_depth(mo.group(1), ",")) == 1:
            t2 = "%s . map_err ( Into :: into )" % mo.group(1)
        if t2 != t:
            t = t2
            changed = True
        m = re.match(r"(?:(?:(?:std|core) :: )?result :: )?Result :: map_err \( (.*) \)$", t)
        if m:
            args = [a for a in split_depth(m.group(1), ",") if a.strip()]
            if len(args) == 2:
                t = "%s . map_err ( %s )" % (args[0].strip(), args[1].strip())
                changed = True
    return untok(t)


ARM_HEAD = re.compile(r"(?:^|, |\{ )(\w+) \{ ((?:\w+ : \w+ , )*)\} => ")


def parse_arms(body):
    """match arms of an enum dispatch body -> {Variant: (fn, [field names in call order], post)}"""
    res = {}
    m0 = re.search(r"match self \{ (.*)\} \}$", body, flags=re.S)
    if not m0:
        return res
    inner = m0.group(1)
    heads = list(ARM_HEAD.finditer(inner))
    for i, h in enumerate(heads):
        end = heads[i + 1].start() if i + 1 < len(heads) else len(inner)
        arm_body = inner[h.end():end].strip()
        ph = arm_body.find("_Phantom (_) =>")
        if ph >= 0:
            arm_body = arm_body[:ph].strip()
        arm_body = norm_expr(arm_body.rstrip(",").strip())
        binds = {}
        for pair in h.group(2).split(" , "):
            pair = pair.strip().rstrip(",").strip()
            if pair:
                fld, b = [x.strip() for x in pair.split(" : ")]
                binds[b] = fld
        call = re.search(r"contract \. (\w+) \(Into :: into \(ctx\)(.*?)\)( \?)?\)? \. map_err \(Into :: into\)$", arm_body)
        if call:
            args = [a.strip() for a in call.group(2).split(",") if a.strip()]
            names = [binds.get(a, "?" + a) for a in args]
            if arm_body.startswith("sylvia :: cw_std :: to_json_binary (& contract .") and call.group(3):
                post = "to_json_binary+map_err"
            elif arm_body.startswith("contract ."):
                post = "map_err"
            else:
                post = "other"
            res[h.group(1)] = (call.group(1), names, post)
        else:
            res[h.group(1)] = ("?", [], "unparsed:" + arm_body)
    return res


def canon_enum(f, mod, type_name, alias_of=None):
    """lines for an enum message `type_name` in module path `mod` (e.g. '::sv')."""
    lines = []
    real = alias_of or type_name
    path = "%s::%s" % (mod, real)
    head = f.one(path + "|enum")
    if head is None:
        return ["enum %s missing" % type_name]
    gens, wh, _ = parse_generics(head)
    lines.append("enum %s generics=%s" % (real, ",".join(gens)))
    impl_path, igens, iwh = impl_with_fn(f, mod, real, "dispatch")
    lines.append("enum %s impl_where=%s" % (real, ";".join(iwh)))
    lines.append("enum %s attrs=%s" % (real, ";;".join(forwarded_type_attrs(f.all(path + "|attr")))))
    variants = [k[len(path) + 2:-len("|variant")] for k, v in f.kv
                if k.startswith(path + "::") and k.endswith("|variant")]
    lines.append("enum %s variants=%s" % (real, ",".join(variants)))
    dg = []
    arms = {}
    ctors = []
    if impl_path:
        dgens, dwh, _ = parse_generics(f.one(impl_path + "::dispatch|fn_generics", "generics=[];where=[]"))
        dg = [g for g in dgens if g != "ContractT"]
        arms = parse_arms(f.one(impl_path + "::dispatch|body", ""))
        ctors = [n for n in all_impl_fns(f, mod, real) if n != "dispatch"]
    lines.append("enum %s dispatch_generics=%s" % (real, ",".join(dg)))
    return lines, path, variants, arms, ctors, wh


def table_of(f, mod, ep):
    body = f.one("%s::%s_messages|body" % (mod, ep))
    if body is None:
        return None
    return re.findall(r'"([^"]*)"', body)


EP = {"ExecMsg": "execute", "QueryMsg": "query", "SudoMsg": "sudo"}


def canon_enum_full(f, mod, base_name, real_name):
    r = canon_enum(f, mod, real_name)
    if isinstance(r, list):
        return r
    lines, path, variants, arms, ctors, enum_where = r
    tbl = table_of(f, mod, EP[base_name])
    lines.append("enum %s table=%s" % (real_name, ",".join(tbl) if tbl is not None else "<missing>"))
    lines.append("enum %s ctors=%s" % (real_name, ",".join(ctors)))
    if enum_where:
        lines.append("enum %s type_where=%s" % (real_name, ";".join(enum_where)))
    for v in variants:
        if v == "_Phantom":
            # the hidden variant carrying the type parameters must never be (de)serialisable
            # (`returns(..)` is what cosmwasm_schema's QueryResponses derive requires on every variant; its type lists the
            #  parameters in first-use order and is not an observable of any property)
            lines.append("enum %s phantom_attrs=%s" % (real_name, ";;".join(
                x for x in (strip_attr(a) for a in f.all("%s::%s|attr" % (path, v))) if not x.startswith("returns("))))
            continue
        vp = "%s::%s" % (path, v)
        lines.append("variant %s::%s fields=%s" % (real_name, v, show_fields(fields_of(f, vp))))
        lines.append("variant %s::%s attrs=%s" % (real_name, v, ";;".join(strip_attr(a) for a in f.all(vp + "|attr"))))
        fn, names, post = arms.get(v, ("<noarm>", [], ""))
        lines.append("arm %s::%s=%s:%s:%s" % (real_name, v, fn, ",".join(names), post))
    return lines


def canon_struct(f, mod, name):
    path = "%s::%s" % (mod, name)
    head = f.one(path + "|struct")
    if head is None:
        return []
    gens, wh, _ = parse_generics(head)
    lines = ["struct %s generics=%s" % (name, ",".join(gens))]
    impl_path, igens, iwh = impl_with_fn(f, mod, name, "dispatch")
    lines.append("struct %s impl_where=%s" % (name, ";".join(iwh)))
    lines.append("struct %s attrs=%s" % (name, ";;".join(forwarded_type_attrs(f.all(path + "|attr")))))
    lines.append("struct %s fields=%s" % (name, show_fields(fields_of(f, path))))
    dg, call = [], "<nodispatch>:"
    if impl_path:
        dgens, dwh, _ = parse_generics(f.one(impl_path + "::dispatch|fn_generics", "generics=[];where=[]"))
        dg = dgens
        body = f.one(impl_path + "::dispatch|body", "")
        md = re.match(r"\{ (let Self \{[^}]*\} = self ;) (.*) \}$", body, flags=re.S)
        if md:
            body = "{ %s %s }" % (md.group(1), norm_expr("{ " + md.group(2) + " }"))
        m = re.search(r"contract \. (\w+) \(Into :: into \(ctx\)(.*?)\) \. map_err \(Into :: into\) \}$", body)
        if m:
            call = "%s:%s" % (m.group(1), ",".join(a.strip() for a in m.group(2).split(",") if a.strip()))
        else:
            call = "unparsed:" + body
    lines.append("struct %s dispatch_generics=%s" % (name, ",".join(dg)))
    lines.append("struct %s call=%s" % (name, call))
    if wh:
        lines.append("struct %s type_where=%s" % (name, ";".join(wh)))
    return lines


def overlap_lists(text):
    """the name lists handed to `assert_no_intersection` in a piece of generated code (in order), or None"""
    t = retok(text)
    m = re.search(r"assert_no_intersection (?::: < [^<>]* > )?\( (.*)$", t)
    if not m:
        return None
    rest, depth, arg = m.group(1).split(" "), 1, []
    for tok in rest:
        if tok in ("(", "[", "{"):
            depth += 1
        elif tok in (")", "]", "}"):
            depth -= 1
            if depth == 0:
                break
        arg.append(tok)
    arg = " ".join(arg).strip().rstrip(",").strip()
    if re.fullmatch(r"\w+", arg):
        m2 = re.search(r"let %s : [^=]* = \[ (.*?) \] ;" % re.escape(arg), t)
        if not m2:
            return None
        inner = m2.group(1)
    elif arg.startswith("[ ") and arg.endswith(" ]"):
        inner = arg[2:-2]
    else:
        return None
    return [untok(x.strip().lstrip("&").strip()) for x in split_depth(inner, ",") if x.strip()]


def wrapper_arms(body, name):
    """arms of the `match self` of a contract-level dispatch: {Variant: arm expression}; the enum may be named or `Self`,
    the bound message may have any name"""
    t = retok(body)
    m = re.search(r"match self \{ (.*) \} \}$", t)
    if not m:
        return {}
    out = {}
    for arm in split_depth(m.group(1), ","):
        am = re.match(r"\s*(?:%s|Self) :: (\w+) \( \w+ \) => (.*)$" % re.escape(name), arm.strip(), flags=re.S)
        if am:
            out[am.group(1)] = am.group(2)
    return out


def canon_wrapper(f, mod, name, ep):
    path = "%s::%s" % (mod, name)
    if f.one(path + "|enum") is None:
        return ["wrapper %s missing" % name]
    variants = [k[len(path) + 2:-len("|variant")] for k, v in f.kv
                if k.startswith(path + "::") and k.endswith("|variant")]
    vs = []
    for v in variants:
        flds = fields_of(f, "%s::%s" % (path, v))
        acc = "?"
        if flds:
            m = re.search(r"::(\w+)$", flds[0][1])
            acc = m.group(1) if m else flds[0][1]
        vs.append("%s:%s" % (v, acc))
    lines = ["wrapper %s variants=%s" % (name, ",".join(vs))]
    impl_path, _, _ = impl_with_fn(f, mod, name, "dispatch")
    tables, bridged = [], []
    body = f.one(impl_path + "::dispatch|body", "") if impl_path else ""
    # the overlap assertion: inside dispatch (a `const _` block) or as a `const _` item of the module; the one of this
    # wrapper is the one whose last list is the contract's own table of this entry point
    cands = [overlap_lists(body)] + [overlap_lists(v) for k, v in f.kv if k == "%s::_|const" % mod]
    cands = [c for c in cands if c]
    own = [c for c in cands[:1] if body and overlap_lists(body)] or \
          [c for c in cands if re.fullmatch(r"%s_messages \(\)" % ep, c[-1])]
    if own:
        for part in own[0]:
            mm = re.fullmatch(r"(?:(.*) :: sv :: )?(\w+)_messages \(\)", part)
            if mm:
                modp = nows(mm.group(1)) if mm.group(1) else "self"
                tables.append(modp if mm.group(2) == ep else "%s!%s" % (modp, mm.group(2)))
            else:
                tables.append("?" + part)
    else:
        tables.append("<no const block>")
    if impl_path:
        arms = wrapper_arms(body, name)
        for v in variants[:-1]:
            arm = arms.get(v, "")
            bridged.append("%s:%d:%d" % (v, 1 if "into_response" in arm else 0, 1 if "into_empty" in arm else 0))
    lines.append("wrapper %s tables=%s" % (name, ",".join(tables)))
    lines.append("wrapper %s bridged=%s" % (name, ",".join(bridged)))
    # schema: any_of over the parts; query responses: the parts' tables flattened into one map
    acc = {"execute": "Exec", "query": "Query", "sudo": "Sudo"}[ep]

    def part_of(expr):
        m = re.fullmatch(r"< (.+?) as (?:(.+) :: sv :: InterfaceMessagesApi|sylvia :: types :: ContractApi) > :: (\w+)", expr.strip())
        if not m:
            return "?" + expr.strip()
        modp = nows(m.group(2)) if m.group(2) else "self"
        return modp if m.group(3) == acc else "%s!%s" % (modp, m.group(3))
    for k, v in f.kv:
        mm = re.fullmatch(r"(%s::impl#\d+)\|impl" % re.escape(mod), k)
        if not mm or not re.search(r"self=%s\b" % name, v.strip()):
            continue
        if "JsonSchema" in v:
            body = f.one(mm.group(1) + "::json_schema|body", "")
            parts = re.findall(r"gen \. subschema_for :: < (< .+? > :: \w+) > \(\)", body)
            kind = "any_of" if re.search(r"any_of : Some", body) else "other"
            lines.append("wrapper %s schema=%s:%s" % (name, kind, ",".join(part_of(x) for x in parts)))
        if "QueryResponses" in v:
            body = f.one(mm.group(1) + "::response_schemas_impl|body", "")
            # (the associated function may be named through the trait: `< <C as Api> :: Query as QueryResponses > :: ..`)
            b2 = re.sub(r"< (< [^\[\]]+? > :: \w+) as (?:\w+ :: )*QueryResponses > :: response_schemas_impl", r"\1 :: response_schemas_impl", body)
            parts = re.findall(r"(< [^\[\]]+? > :: \w+) :: response_schemas_impl \(\)", b2)
            # the maps of the parts, in order, poured into one map: an array flattened, or one chained sequence
            if re.search(r"responses \. into_iter \(\) \. flatten \(\) \. collect \(\) \}$", b2):
                how = "flatten"
            elif re.search(r"^\{ (?:\w+ :: )*empty (?::: < [^{}]* > )?\(\)(?: \. chain \(.*?\))+ \. collect \(\) \}$", b2):
                how = "flatten"
            else:
                how = "other"
            lines.append("wrapper %s responses=%s:%s" % (name, how, ",".join(part_of(x) for x in parts)))
    return lines


def api_aliases(f, mod, trait_rx):
    """`api <Assoc>=<Type>:<arg,arg,..>` for every associated type of the impl of ContractApi / InterfaceMessagesApi
    (model-independent observation: the alias must name the generated type with the parameters it declares, in order)"""
    lines = []
    for k, v in f.kv:
        mm = re.fullmatch(r"(%s::impl#\d+)\|impl" % re.escape(mod), k)
        if not mm or not re.search(trait_rx, v):
            continue
        pre = mm.group(1) + "::"
        for k2, v2 in f.kv:
            if k2.startswith(pre) and k2.endswith("|assoc_type"):
                name = k2[len(pre):-len("|assoc_type")]
                ty = v2.split(";ty=", 1)[1] if ";ty=" in v2 else v2
                m = re.fullmatch(r"\s*(\w+)\s*(?:<(.*)>)?\s*", ty)
                if m:
                    args = [nows(a) for a in split_top(m.group(2) or "")] if m.group(2) else []
                    lines.append("api %s=%s:%s" % (name, m.group(1), ",".join(a for a in args if a)))
                else:
                    lines.append("api %s=?%s" % (name, nows(ty)))
    return lines


def split_top(s):
    out, depth, cur = [], 0, ""
    for ch in s:
        if ch in "<([":
            depth += 1
        elif ch in ">)]":
            depth -= 1
        if ch == "," and depth == 0:
            out.append(cur)
            cur = ""
        else:
            cur += ch
    if cur.strip():
        out.append(cur)
    return out


def canon_contract(kv):
    f = kv if isinstance(kv, Facts) else Facts(kv)
    if f.status != "accepted":
        return ["status=rejected"]
    lines = ["status=accepted"]
    mod = "::sv"
    lines += canon_struct(f, mod, "InstantiateMsg")
    for base in ("ExecMsg", "QueryMsg", "SudoMsg"):
        lines += canon_enum_full(f, mod, base, base)
    lines += canon_struct(f, mod, "MigrateMsg")
    for name, ep in (("ContractExecMsg", "execute"), ("ContractQueryMsg", "query"), ("ContractSudoMsg", "sudo")):
        lines += canon_wrapper(f, mod, name, ep)
    lines += api_aliases(f, mod, r"trait=[^;]*\bContractApi\b")
    return lines


def canon_iface(kv, iface_name):
    f = kv if isinstance(kv, Facts) else Facts(kv)
    if f.status != "accepted":
        return ["status=rejected"]
    lines = ["status=accepted"]
    mod = "::sv"
    for base in ("ExecMsg", "QueryMsg", "SudoMsg"):
        lines += canon_enum_full(f, mod, base, iface_name + base)
    lines += api_aliases(f, mod, r"trait=[^;]*\bInterfaceMessagesApi\b")
    return lines
