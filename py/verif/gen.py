"""Random generation of abstract programs (one PRNG, seeded by the caller)."""
from .prog import (Contract, Interface, Method, Arg, Other, WPred, P, PP, Tup, Ty, sv_msg, sv_attr, sv_msg_attr,
                   sv_messages, sv_override, sv_custom, sv_error, sv_features, foreign, CTX_TYPE)

WORDS = ["foo", "bar", "set", "get", "owner", "count", "mint", "burn", "x", "y", "a", "b", "id", "add", "admin", "list"]
NAME_CLASSES = ["plain", "multi", "trail_digit", "inner_digit", "one_letter_words", "single_letter",
                "lead_us", "double_us", "trail_us", "upper", "digit_word"]
NF_CLASSES = ["plain", "multi", "trail_digit", "inner_digit", "one_letter_words", "single_letter"]

RESERVED = {"new", "dispatch", "self", "Self", "type", "fn", "mod", "use", "as", "in", "if", "do", "box", "ref",
            "mut", "let", "for", "pub", "dyn", "impl", "move", "loop", "match", "enum", "else", "trait", "where",
            "while", "super", "crate", "const", "break", "async", "await", "struct", "static", "return", "unsafe",
            "extern", "continue", "true", "false", "try", "abstract", "become", "final", "macro", "override",
            "priv", "typeof", "unsized", "virtual", "yield", "_"}


def gen_name(rng, cls):
    w = lambda: rng.choice(WORDS)
    long_w = lambda: rng.choice([x for x in WORDS if len(x) > 1])
    if cls == "plain":
        return long_w()
    if cls == "multi":
        return "_".join(long_w() for _ in range(rng.randint(2, 3)))
    if cls == "trail_digit":
        return long_w() + str(rng.randint(0, 99))
    if cls == "inner_digit":
        return "%s%d_%s" % (long_w(), rng.randint(0, 9), w())
    if cls == "one_letter_words":
        return "_".join(rng.choice(["a", "b", "x", "y"]) for _ in range(rng.randint(2, 3))) + rng.choice(["", "_" + long_w()])
    if cls == "single_letter":
        return rng.choice("abcxyz")
    if cls == "lead_us":
        return "_" + long_w()
    if cls == "double_us":
        return "%s__%s" % (long_w(), w())
    if cls == "trail_us":
        return long_w() + "_"
    if cls == "upper":
        return rng.choice(["fooBar", "setX", "getURL", "do_It", "HTTPGet", "x_Y"])
    if cls == "digit_word":
        return "%s_%d%s" % (long_w(), rng.randint(1, 9), rng.choice(["", "x", "_a"]))
    raise ValueError(cls)


def classify_name(n):
    import re
    if re.fullmatch(r"[a-z]+[0-9]*(_[a-z]+[0-9]*)*", n):
        return "nf"
    return "non_nf"


BASE_TYPES = [P("u8"), P("u32"), P("u64"), P("i64"), P("String"), P("bool")]


def gen_type(rng, generics=(), depth=0, allow_generic=True):
    r = rng.random()
    if generics and allow_generic and r < 0.35:
        return P(rng.choice(list(generics)))
    if depth < 2 and r < 0.55:
        k = rng.choice(["Option", "Vec", "tuple", "path"])
        if k == "Option":
            return P("Option", gen_type(rng, generics, depth + 1, allow_generic))
        if k == "Vec":
            return P("Vec", gen_type(rng, generics, depth + 1, allow_generic))
        if k == "tuple":
            return Tup(gen_type(rng, generics, depth + 1, allow_generic), gen_type(rng, generics, depth + 1, allow_generic))
        return PP("std", "vec", ("Vec", [gen_type(rng, generics, depth + 1, allow_generic)]))
    return rng.choice(BASE_TYPES)


def mentions(t, g):
    if t.kind == "path":
        if len(t.segs) == 1 and t.segs[0][0] == g and not t.segs[0][1]:
            return True
        return any(mentions(a, g) for _, args in t.segs for a in args)
    return any(mentions(a, g) for a in t.items)


ARG_NAMES = ["a", "b", "c", "amount", "to", "from_addr", "msg", "val1", "x_y", "data", "flag", "items", "n"]

FOREIGN_METHOD_ATTRS = [foreign("allow", "unused"), foreign("inline"), foreign("doc", None), foreign("must_use")]


class ProgGen:
    def __init__(self, rng, name_classes=None):
        self.rng = rng
        self.name_classes = name_classes or NAME_CLASSES

    def fresh_name(self, used, classes=None):
        rng = self.rng
        for _ in range(200):
            n = gen_name(rng, rng.choice(classes or self.name_classes))
            # two methods whose names differ only in underscores / case give the same variant identifier
            # (rustc rejects the enum): not generated
            key = "~" + n.replace("_", "").lower()
            if n not in used and n not in RESERVED and key not in used:
                used.add(n)
                used.add(key)
                return n
        n = "m%d" % len(used)
        used.add(n)
        return n

    def gen_args(self, generics, maxn=4, attrs_p=0.15):
        rng = self.rng
        n = rng.choice([0, 1, 1, 2, 2, 3, maxn])
        if rng.random() < 0.06:
            n = rng.randint(10, 13)       # two-digit positions (field10 sorts before field2 as text)
        names = rng.sample(ARG_NAMES, n)
        args = []
        for nm in names:
            a = Arg(nm, gen_type(rng, generics))
            if rng.random() < attrs_p:
                a.attrs.append(rng.choice([foreign("serde", "default"), foreign("serde", 'rename = "zz_%s"' % nm),
                                           foreign("doc", None) if False else foreign("serde", "default")]))
            args.append(a)
        return args

    def gen_method(self, kind, name, generics, self_prefix=False, error_ty="StdError", custom=False):
        rng = self.rng
        attrs = []
        if rng.random() < 0.15:
            attrs.append(foreign("allow", "clippy::too_many_arguments"))
        resp = None
        ret_inner = P("Response")
        if kind == "query":
            ret_inner = gen_type(rng, generics)
            if rng.random() < 0.2:
                # response types that are themselves framework / chain types (a query may return already-encoded
                # bytes, a response, an address ...): still the JSON encoding of the returned value is what the caller gets
                ret_inner = rng.choice([P("Binary"), PP("cw_std", "Binary"), P("Vec", P("Binary")), P("Option", P("Binary")),
                                        P("Response"), P("Empty"), P("Addr"), P("Coin"), P("Vec", P("u8"))])
        ret = P(rng.choice(["StdResult"]), ret_inner) if not self_prefix else P("Result", ret_inner, PP("Self", "Error"))
        if kind == "query" and rng.random() < 0.15:
            # explicit response type: with an aliased result (the documented use), or next to a literal Result of another type
            resp = "RespAlias"
            if generics and not self_prefix and rng.random() < 0.5:
                resp = rng.choice(list(generics))      # the response named by `resp=` is one of the type parameters
            r = rng.random()
            if r < 0.4:
                ret = P("AliasedResult")
            elif r < 0.6 and not self_prefix:
                # ... or of a type of ANOTHER module that happens to have the same name: `resp=` still wins
                ret = P("StdResult", PP("other", resp))
        attrs.append(sv_msg(kind, resp=resp))
        if kind in ("exec", "query", "sudo") and rng.random() < 0.2:
            # forwarded attributes may be written above or below `sv::msg`, and there may be several
            for _ in range(rng.choice([1, 1, 2])):
                attrs.insert(rng.randint(0, len(attrs)),
                             sv_attr(rng.choice(['serde(rename = "renamed_%s")' % name, "doc(hidden)", 'serde(alias = "al")'])))
        if rng.random() < 0.1:
            attrs.append(foreign("inline"))
        args = self.gen_args(generics)
        m = Method(name, attrs, args, ret, ctx_ty=CTX_TYPE[kind])
        return m

    def gen_contract(self, n_ifaces=None, generic=None, with_where=True):
        rng = self.rng
        generic = rng.random() < 0.4 if generic is None else generic
        generics = rng.sample(["T", "U", "V", "W"], rng.randint(1, 3)) if generic else []
        c = Contract(rng.choice(["Ctr", "MyContract", "Cw20Base"]), generics=generics)
        if generics and with_where:
            for g in generics:
                r = rng.random()
                if r < 0.5:
                    c.where.append(WPred(P(g), [PP("serde", "Serialize"), P("Clone")]))
                elif r < 0.7 and len(generics) > 1:
                    other = rng.choice([x for x in generics if x != g])
                    c.where.append(WPred(P(g), [P("Into", P(other))]))
        used = set()
        n_if = rng.choice([0, 0, 1, 2, 3]) if n_ifaces is None else n_ifaces
        ifnames = rng.sample(["cw1", "whitelist", "cw20_minting", "iface_a", "b2b", "owner_api"], n_if)
        for nm in ifnames:
            module = rng.choice([[nm], ["crate", nm], ["super", "ifaces", nm]])
            as_name = rng.choice([None, None, "Alias" + nm.capitalize().replace("_", "")])
            c.attrs.append(sv_messages(module, as_name=as_name, custom_msg=rng.random() < 0.15,
                                       custom_query=rng.random() < 0.15))
        if rng.random() < 0.3:
            c.attrs.append(sv_error(rng.choice(["ContractError", "crate::error::MyError"])))
        if rng.random() < 0.2:
            c.attrs.append(sv_custom(msg=rng.choice([None, "MyMsg"]), query=rng.choice([None, "MyQuery"])))
        # forwarded type attributes: several per kind, written in any order (kinds interleaved, e.g. all derives first and
        # all serde attributes after them)
        fwd = []
        for k in ("exec", "query", "sudo", "instantiate", "migrate"):
            r = rng.random()
            for _ in range(0 if r < 0.7 else (1 if r < 0.88 else rng.choice([2, 3]))):
                fwd.append(sv_msg_attr(k, rng.choice(["derive(PartialOrd)", "derive(Eq, Hash)", 'serde(deny_unknown_fields)',
                                                      "cfg_attr(test, derive(Default))", "derive(Ord)", 'doc = "forwarded"'])))
        rng.shuffle(fwd)
        c.attrs.extend(fwd)
        if rng.random() < 0.2:
            c.attrs.append(foreign("cfg_attr", "not(feature = \"library\"), allow(dead_code)"))
        methods = [self.gen_method("instantiate", self.fresh_name(used, ["plain", "multi"]), generics)]
        for k, maxn in (("exec", 4), ("query", 3), ("sudo", 2)):
            for _ in range(rng.randint(0, maxn)):
                methods.append(self.gen_method(k, self.fresh_name(used), generics))
        if rng.random() < 0.4:
            methods.append(self.gen_method("migrate", self.fresh_name(used, ["plain", "multi"]), generics))
        rng.shuffle(methods)
        c.items = list(methods)
        if rng.random() < 0.3:
            c.items.insert(rng.randint(0, len(c.items)), Other("fn helper_%d(&self, v: u32) -> u32 { v + 1 }" % rng.randint(0, 9)))
        return c

    def gen_iface(self, name=None, assoc=None):
        rng = self.rng
        name = name or rng.choice(["Cw1", "Whitelist", "Minting", "OwnerApi"])
        i = Interface(name)
        i.assoc.append(("Error", [P("From", P("StdError"))]))
        n_assoc = rng.choice([0, 0, 1, 2]) if assoc is None else assoc
        anames = rng.sample(["ItemT", "Param", "RetT", "Msg"], n_assoc)
        for a in anames:
            # an associated type without bounds makes the macro panic (parse_quote of `Name`): kept rare
            i.assoc.append((a, [PP("serde", "Serialize"), P("Clone")] if rng.random() < 0.93 else []))
        i.attrs.append(sv_custom(msg="Empty", query="Empty"))
        # forwarded type attributes on the trait: several per kind, kinds interleaved (as for contracts)
        fwd = []
        for k in ("exec", "query", "sudo"):
            r = rng.random()
            for _ in range(0 if r < 0.7 else (1 if r < 0.85 else rng.choice([2, 3]))):
                fwd.append(sv_msg_attr(k, rng.choice(["derive(PartialOrd)", "derive(Eq, Hash)", 'serde(deny_unknown_fields)',
                                                      "derive(Ord)", 'doc = "forwarded"'])))
        rng.shuffle(fwd)
        i.attrs.extend(fwd)
        used = set()
        gens = ["Self::" + a for a in anames]
        for k, maxn in (("exec", 3), ("query", 3), ("sudo", 2)):
            for _ in range(rng.randint(0, maxn)):
                m = self.gen_method(k, self.fresh_name(used), [], self_prefix=True)
                # sprinkle associated types into arguments / query results
                for a in m.args:
                    if anames and rng.random() < 0.4:
                        at = PP("Self", rng.choice(anames))
                        a.ty = rng.choice([at, P("Vec", at), P("Option", at)])
                if k == "query" and anames and rng.random() < 0.4 and m.msg_attr()[2] is None:
                    m.ret = P("Result", PP("Self", rng.choice(anames)), PP("Self", "Error"))
                i.items.append(m)
        return i


# ------------------------------------------------------------------------------------------ L2 programs
def gen_l2_type(rng, generics=(), assoc=(), depth=0, in_option=False):
    """Types whose values serde-json round-trips exactly (no Option directly inside Option)."""
    r = rng.random()
    if generics and r < 0.3:
        return P(rng.choice(list(generics)))
    if assoc and r < 0.45:
        return PP("Self", rng.choice(list(assoc)))
    if depth < 2 and r < 0.7:
        k = rng.choice(["Option", "Vec", "tuple", "path"] if not in_option else ["Vec", "tuple", "path"])
        if k == "Option":
            return P("Option", gen_l2_type(rng, generics, assoc, depth + 1, True))
        if k == "Vec":
            return P("Vec", gen_l2_type(rng, generics, assoc, depth + 1))
        if k == "tuple":
            return Tup(gen_l2_type(rng, generics, assoc, depth + 1), gen_l2_type(rng, generics, assoc, depth + 1))
        return PP("std", "vec", ("Vec", [gen_l2_type(rng, generics, assoc, depth + 1)]))
    return rng.choice(BASE_TYPES)


CONCRETE = [P("u32"), P("String"), P("u64"), P("Vec", P("u8")), P("bool"), Tup(P("u8"), P("String"))]
STRINGS = ["", "a", "hello world", "quote\"d", "unié中", "back\\slash", "new\nline", "x" * 40]


def gen_value(rng, t):
    """A JSON value (as Python object) that is the serde encoding of a random value of concrete type t."""
    if t.kind == "tuple":
        return [gen_value(rng, x) for x in t.items]
    if t.kind == "ref":
        return gen_value(rng, t.items[0])
    name, args = t.segs[-1]
    if name in ("u8",):
        return rng.choice([0, 1, 255, rng.randint(0, 255)])
    if name == "u32":
        return rng.choice([0, 1, 4294967295, rng.randint(0, 4294967295)])
    if name == "u64":
        return rng.choice([0, 1, 18446744073709551615, rng.randint(0, 2 ** 53)])
    if name == "i64":
        return rng.choice([0, -1, 9223372036854775807, -9223372036854775808, rng.randint(-2 ** 40, 2 ** 40)])
    if name == "String":
        return rng.choice(STRINGS)
    if name == "bool":
        return rng.random() < 0.5
    if name == "Option":
        return None if rng.random() < 0.35 else gen_value(rng, args[0])
    if name == "Vec":
        return [gen_value(rng, args[0]) for _ in range(rng.choice([0, 0, 1, 2, 3]))]
    raise ValueError("no value generator for %s" % t.rust())


def gen_l2_program(rng, name_classes=None, n_ifaces=None, generic=None, error=None):
    from .corpus import L2Prog, L2Iface, L2Method
    g = ProgGen(rng, name_classes)
    generic = (rng.random() < 0.4) if generic is None else generic
    p = L2Prog(name=rng.choice(["Ctr", "MyContract", "Cw20Base"]))
    if generic:
        for gname in rng.sample(["T", "U", "V"], rng.randint(1, 3)):
            p.generics.append((gname, rng.choice(CONCRETE)))
    p.error = error or rng.choice(["std", "std", "custom"])
    gens = [x for x, _ in p.generics]
    used = set()
    # all parts of one contract share a name pool so that wire names never collide by construction of
    # the generator (collisions are generated on purpose by the C05 check only)
    wire_used = set()

    pool = []

    def near(n):
        """a name one edit away from an existing one (same length and another first / last letter, an extension, a proper
        prefix): the lookups that route a message by its name must tell such neighbours apart"""
        k = rng.choice(["first", "last", "extend", "prefix", "first"])
        letters = "abcdefghklmnoprstuvwxyz"
        if k == "first" and n[:1].isalpha():
            return rng.choice([c for c in letters if c != n[0].lower()]) + n[1:]
        if k == "last" and n[-1:].isalpha():
            return n[:-1] + rng.choice([c for c in letters if c != n[-1].lower()])
        if k == "prefix" and "_" in n.strip("_"):
            return n.rsplit("_", 1)[0]
        return n + rng.choice(["_from", "_x", "s"])

    def fresh(classes=None):
        for _ in range(300):
            n = None
            if pool and classes is None and rng.random() < 0.3:      # (kinds with a restricted name class keep it)
                c = near(rng.choice(pool))
                ck = "~" + c.replace("_", "").lower()
                # (a corpus restricted to names whose wire form is the name itself keeps that restriction)
                nf_ok = not (set(g.name_classes) <= set(NF_CLASSES)) or classify_name(c) == "nf"
                if c and nf_ok and c not in used and ck not in used and c not in RESERVED and c.strip("_") and not c[0].isdigit():
                    used.add(c)
                    used.add(ck)
                    n = c
            if n is None:
                n = g.fresh_name(used, classes)
            key = n.replace("_", "").lower()
            if key not in wire_used:
                wire_used.add(key)
                pool.append(n)
                return n
        raise RuntimeError("name pool exhausted")

    def plain(t):
        if t.kind == "path":
            if t.segs[0][0] == "Self" or (len(t.segs) == 1 and t.segs[0][0] in gens):
                return False
            return all(plain(a) for _, args in t.segs for a in args)
        return all(plain(a) for a in t.items)

    def mk_method(kind, assoc=None):
        nargs = rng.choice([0, 1, 1, 2, 2, 3, 4])
        wide = rng.random() < 0.08
        if wide:
            nargs = rng.randint(10, 13)   # two-digit positions; same-typed so that a permutation still compiles
        names = rng.sample(ARG_NAMES, nargs)
        if wide:
            wt = rng.choice([P("u32"), P("String"), P("u64")])
            args = [Arg(nm, wt) for nm in names]
        else:
            args = [Arg(nm, gen_l2_type(rng, gens if assoc is None else (), assoc or ())) for nm in names]
        for a in args:
            if rng.random() < 0.15 and plain(a.ty):
                a.attrs.append(foreign("serde", "default"))
        m = L2Method(fresh(["plain", "multi"] if kind in ("instantiate", "migrate") else None), kind, args)
        if kind == "query" and args and rng.random() < 0.3 and args[0].ty.kind == "path":
            # (a tuple as the query's response type makes the macro panic in extract_return_type: not generated)
            m.ret = "arg0"
        if kind in ("exec", "query", "sudo") and rng.random() < 0.12:
            m.extra_attrs.append(sv_attr('serde(alias = "alias_%s")' % m.name.strip("_")))
        return m

    p.methods.append(mk_method("instantiate"))
    for kind, maxn in (("exec", 4), ("query", 3), ("sudo", 2)):
        for _ in range(rng.randint(0, maxn)):
            p.methods.append(mk_method(kind))
    if rng.random() < 0.5:
        p.methods.append(mk_method("migrate"))
    rng.shuffle(p.methods)
    n_if = rng.choice([0, 1, 1, 2, 3]) if n_ifaces is None else n_ifaces
    traits = rng.sample(["Cw1", "Whitelist", "Minting", "OwnerApi", "Pausable"], n_if)
    for k, tr in enumerate(traits):
        it = L2Iface(mod="i%d" % k, trait=tr)
        for an in rng.sample(["ItemT", "Param", "RetT"], rng.choice([0, 0, 1, 2])):
            it.assoc.append((an, rng.choice(CONCRETE)))
        it.as_name = rng.choice([None, None, "Alias%d" % k])
        for kind, maxn in (("exec", 3), ("query", 2), ("sudo", 2)):
            for _ in range(rng.randint(0, maxn)):
                it.methods.append(mk_method(kind, assoc=[a for a, _ in it.assoc]))
        p.ifaces.append(it)
    for k in ("exec", "query", "sudo", "instantiate", "migrate"):
        if rng.random() < 0.15:
            p.msg_attrs.append((k, rng.choice(["derive(PartialOrd)", "derive(Eq)"])))
    return p
