"""Compiles a batch of small programs (one bin target each) against /repo's sylvia through a renamed
dependency and reports, per program, the rustc errors (text, code, line)."""
import json
import os
import shutil
import subprocess
import time

from . import common
from .common import VERIF, CACHE, REPO, log

CARGO_TOML = """[package]
name = "batch"
version = "0.0.0"
edition = "2021"
publish = false

[workspace]

[dependencies]
%(dep)s
serde = { version = "1.0.219", default-features = false, features = ["derive"] }
serde_json = "1.0.140"
schemars = "0.8.22"
thiserror = "2.0.12"

[profile.dev]
debug = false
opt-level = 0
incremental = false
"""

DEP_RENAMED = 'svfw = { package = "sylvia", path = "/repo/sylvia", features = ["mt", "stargate", "iterator", "cosmwasm_2_0"] }'
DEP_PLAIN = 'sylvia = { path = "/repo/sylvia", features = ["mt", "stargate", "iterator", "cosmwasm_2_0"] }'


def compile_batch(files, tag="batch", renamed=True, build=False):
    """files: {name: rust source of a bin}. Returns {name: [ {code, message, line, rendered} ]} (empty list = compiled)."""
    d = os.path.join(CACHE, "crates", "batch_%s" % tag)
    bind = os.path.join(d, "src", "bin")
    with common.locked("cargo"):
        if os.path.exists(bind):
            shutil.rmtree(bind)
        os.makedirs(bind, exist_ok=True)
        with open(os.path.join(d, "Cargo.toml"), "w") as f:
            f.write(common.repo_paths(CARGO_TOML % {"dep": DEP_RENAMED if renamed else DEP_PLAIN}))
        if not os.path.exists(os.path.join(d, "Cargo.lock")):
            shutil.copy(os.path.join(REPO, "Cargo.lock"), os.path.join(d, "Cargo.lock"))
        for name, src in files.items():
            with open(os.path.join(bind, name + ".rs"), "w") as f:
                f.write(src)
        tdir = os.path.join(CACHE, "target-corpus")
        t0 = time.time()
        p = subprocess.run(["cargo", "build" if build else "check", "--offline", "--bins", "--keep-going", "--message-format=json"], cwd=d,
                           env=common.cargo_env({"CARGO_TARGET_DIR": tdir, "RUSTFLAGS": "-Awarnings"}),
                           capture_output=True, text=True)
        log("batch %s (%d programs) checked in %.1fs" % (tag, len(files), time.time() - t0))
    res = {name: [] for name in files}
    seen_artifact = set()
    dep_error = None
    for line in p.stdout.splitlines():
        try:
            m = json.loads(line)
        except Exception:
            continue
        if m.get("reason") == "compiler-artifact" and m.get("target", {}).get("name") in res:
            seen_artifact.add(m["target"]["name"])
        if m.get("reason") != "compiler-message":
            continue
        msg = m.get("message", {})
        if msg.get("level") != "error":
            continue
        tname = m.get("target", {}).get("name")
        spans = [s for s in msg.get("spans", []) if s.get("is_primary")]
        ent = {"code": (msg.get("code") or {}).get("code"), "message": msg.get("message", ""),
               "line": spans[0]["line_start"] if spans else None,
               "file": spans[0]["file_name"] if spans else None,
               "rendered": (msg.get("rendered") or "")[:1500]}
        if tname in res:
            res[tname].append(ent)
        else:
            dep_error = ent
    if dep_error is not None and not any(res.values()):
        raise common.BuildError("batch %s: a dependency failed to compile" % tag, dep_error["rendered"])
    if p.returncode != 0 and not any(res.values()) :
        raise common.BuildError("batch %s: cargo failed without a program error" % tag, p.stderr[-3000:])
    for name in files:
        if not res[name] and name not in seen_artifact and p.returncode != 0:
            # cargo stopped before reaching it
            res[name].append({"code": None, "message": "<not compiled>", "line": None, "file": None, "rendered": ""})
    return res


def run_bin(tag, name, args=(), stdin=None):
    exe = os.path.join(CACHE, "target-corpus", "debug", name)
    p = subprocess.run([exe] + list(args), input=stdin, capture_output=True, text=True)
    return p.returncode, p.stdout, p.stderr
