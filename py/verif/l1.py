"""L1 correspondence: real macro expansion (probe) vs Coq expansion model (Show.v) on abstract programs."""
from . import common, canon
from .prog import Contract, Interface

HEADER = ("From Coq Require Import String List.\nImport ListNotations.\n"
          "Require Import SV.Model.Kinds SV.Model.Syntax SV.Model.Expand SV.Model.Show.\nOpen Scope string_scope.\n")


def run_programs(progs, tag="l1", want_model=True, model_target="theories/Model/Show.vo"):
    """progs: list of Contract | Interface. Returns list of dicts {impl: [lines], model: [lines]|None, facts: Facts}"""
    reqs = []
    exprs = []
    for i, p in enumerate(progs):
        if isinstance(p, Contract):
            reqs.append(("p%d" % i, "contract", "", p.rust_impl()))
            exprs.append("show_contract %s" % p.coq())
        else:
            reqs.append(("p%d" % i, "interface", "", p.rust_trait()))
            exprs.append("show_iface %s" % p.coq())
    res = common.probe_run(reqs, tag=tag)
    model = None
    err = None
    if want_model:
        try:
            ok, out, _ = common.coq_make([model_target])
            if not ok:
                raise common.BuildError("model build failed", out[-2000:])
            model = common.coq_eval(HEADER, exprs, tag=tag, per_file=60)
        except common.BuildError as e:
            err = "%s %s" % (e.what, (e.output or "")[-1200:])
    out = []
    for i, p in enumerate(progs):
        facts = common.Facts(res.get("p%d" % i, []))
        if isinstance(p, Contract):
            impl = canon.canon_contract(facts)
        else:
            impl = canon.canon_iface(facts, p.name)
        out.append({"impl": impl, "model": model[i] if model is not None else None, "facts": facts})
    return out, err


def diff_lines(model, impl):
    """Order-insensitive comparison of key=value lines; returns list of (key, model value, impl value)."""
    def to_map(lines):
        d = {}
        for l in lines:
            k, _, v = l.partition("=")
            d[k] = v
        return d
    dm, di = to_map(model), to_map(impl)
    diffs = []
    for k in sorted(set(dm) | set(di)):
        if dm.get(k) != di.get(k):
            diffs.append((k, dm.get(k), di.get(k)))
    return diffs
