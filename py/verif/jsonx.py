"""JSON trees with ordered, duplicate-preserving objects; renderers to JSON text, to the model's
canonical text (Run.show_json) and to Coq terms (Base/Json.v)."""
import json

from .common import coq_string, coq_list


class JObj(list):
    """list of (key, value) pairs"""

    def keys(self):
        return [k for k, _ in self]

    def get(self, k, default=None):
        for kk, v in self:
            if kk == k:
                return v
        return default


def parse(text):
    return json.loads(text, object_pairs_hook=lambda pairs: JObj(pairs))


def from_py(v):
    """plain python (dict/list/...) -> tree with JObj"""
    if isinstance(v, JObj):
        return JObj([(k, from_py(x)) for k, x in v])
    if isinstance(v, dict):
        return JObj([(k, from_py(x)) for k, x in v.items()])
    if isinstance(v, (list, tuple)):
        return [from_py(x) for x in v]
    return v


def to_text(v):
    """real JSON text (duplicates and order preserved)"""
    if isinstance(v, JObj):
        return "{" + ",".join("%s:%s" % (json.dumps(k), to_text(x)) for k, x in v) + "}"
    if isinstance(v, list):
        return "[" + ",".join(to_text(x) for x in v) + "]"
    return json.dumps(v)


def show(v):
    """the model's canonical text: like JSON but strings are not escaped"""
    if v is None:
        return "null"
    if v is True:
        return "true"
    if v is False:
        return "false"
    if isinstance(v, int):
        return str(v)
    if isinstance(v, float):
        return repr(v)
    if isinstance(v, str):
        return '"' + v + '"'
    if isinstance(v, JObj):
        return "{" + ",".join('"%s":%s' % (k, show(x)) for k, x in v) + "}"
    if isinstance(v, list):
        return "[" + ",".join(show(x) for x in v) + "]"
    raise ValueError(type(v))


def to_coq(v):
    if v is None:
        return "JNull"
    if v is True:
        return "(JBool true)"
    if v is False:
        return "(JBool false)"
    if isinstance(v, int):
        return "(JNum (%d)%%Z)" % v
    if isinstance(v, str):
        return "(JStr %s)" % coq_string(v)
    if isinstance(v, JObj):
        return "(JObj %s)" % coq_list(["(%s, %s)" % (coq_string(k), to_coq(x)) for k, x in v])
    if isinstance(v, list):
        return "(JArr %s)" % coq_list([to_coq(x) for x in v])
    raise ValueError(type(v))


def coq_safe(v):
    """True when every string in the tree is printable ASCII (representable as a Coq literal)."""
    if isinstance(v, str):
        return all(32 <= ord(c) <= 126 for c in v)
    if isinstance(v, JObj):
        return all(coq_safe(k) and coq_safe(x) for k, x in v)
    if isinstance(v, list):
        return all(coq_safe(x) for x in v)
    return True


def has_dup_keys(v):
    if isinstance(v, JObj):
        ks = v.keys()
        return len(set(ks)) != len(ks) or any(has_dup_keys(x) for _, x in v)
    if isinstance(v, list):
        return any(has_dup_keys(x) for x in v)
    return False
