"""Translator back-end: turns the `tables` dump of the probe (match arms of the current Rust
source) into coq/theories/Model/GenTables.v. Fails loudly on any unexpected shape."""
import os
import re

from . import common
from .common import COQ

KINDS = {"Instantiate": "KInst", "Exec": "KExec", "Query": "KQuery", "Migrate": "KMigrate",
         "Reply": "KReply", "Sudo": "KSudo"}
KIND_ORDER = ["KInst", "KExec", "KQuery", "KMigrate", "KReply", "KSudo"]


class TranslateError(Exception):
    pass


def fetch_raw(subdir):
    src = os.path.join(common.REPO, subdir, "src")
    res = common.probe_run([("t", "tables", "", src)], shards=1, tag="tables")
    return res.get("t", [])


def nows(s):
    return "".join(s.split())


LAST_LIB = {}      # the feature tables of the last generate_lib() call, for the witness search of C11


def generate_lib():
    """GenLib.v: tables of sylvia's run-time library (sylvia/src). Returns coq text."""
    kv = fetch_raw("sylvia")
    errors = [v for k, v in kv if k == "file_error"]
    if errors:
        raise TranslateError("unparsable source files: %s" % errors)
    arms, structlits, sdefs, sfields, armattrs = {}, [], {}, {}, {}
    for k, v in kv:
        if k == "armattrs":
            parts = v.split(" @@ ")
            parts += [""] * (3 - len(parts))
            armattrs[(parts[0], nows(parts[1]))] = [a.strip() for a in parts[2].split(" ;; ") if a.strip()]
        elif k == "arm":
            parts = v.split(" @@ ")
            parts += [""] * (4 - len(parts))
            arms.setdefault(parts[0], []).append((parts[1].strip(), parts[2].strip(), " @@ ".join(parts[3:]).strip()))
        elif k == "structlit":
            parts = v.split(" @@ ")
            parts += [""] * (4 - len(parts))
            structlits.append((parts[0], parts[1].strip(), parts[2], parts[3].strip()))
        elif k == "structdef":
            parts = v.split(" @@ ")
            parts += [""] * (3 - len(parts))
            sdefs[parts[0]] = [a.strip() for a in parts[2].split(" ;; ") if a.strip()]
        elif k == "structfield":
            parts = v.split(" @@ ")
            parts += [""] * (4 - len(parts))
            sfields.setdefault(parts[0], []).append((parts[1], parts[2], [a.strip() for a in parts[3].split(" ;; ") if a.strip()]))
    # Each part is translated on its own: a shape the translator does not recognise empties that part (nothing stale is
    # ever proved) and is reported by the properties that depend on it.
    part_errors = {}

    def part_into_msg():
        # ---- IntoMsg::into_msg
        key = [k for k in arms if k.startswith("into_response.rs::") and k.endswith("into_msg#m0")]
        if len(key) != 1:
            raise TranslateError("into_response.rs: the match of IntoMsg::into_msg was not found (%s)" % key)
        table = []
        arm_feats = []
        default_seen = False
        for pat, guard, body in arms[key[0]]:
            feats = cfg_features(armattrs.get((key[0], nows(pat)), []), "into_msg arm %s" % pat[:40])
            if pat == "_":
                default_seen = True
                if "Err" not in body:
                    raise TranslateError("into_msg: the default arm is not an error: %s" % body[:80])
                continue
            m = re.fullmatch(r"CosmosMsg\s*::\s*(\w+)\s*(.*)", pat, flags=re.S)
            if not m or guard:
                raise TranslateError("into_msg: unexpected arm pattern %s" % pat)
            variant = m.group(1)
            arm_feats.append((variant, feats))
            if nows(body) == nows(pat):
                table.append((variant, "keep"))
            elif "Err" in body and "CosmosMsg" not in body:
                table.append((variant, "err"))
            else:
                raise TranslateError("into_msg: arm %s => %s is neither the same message nor an error" % (pat, body[:80]))
        if not default_seen:
            raise TranslateError("into_msg: no default arm")
        lits = [x for x in structlits if x[0].startswith("into_response.rs::") and x[0].endswith("into_msg") and nows(x[1]) == "SubMsg"]
        if len(lits) != 1:
            raise TranslateError("into_msg: expected exactly one `SubMsg { .. }` literal, found %d" % len(lits))
        if lits[0][3]:
            raise TranslateError("into_msg: the SubMsg literal uses a rest expression: %s" % lits[0][3])
        fmap = []
        for f in lits[0][2].split(" ;; "):
            name, _, expr = f.partition("=")
            name, expr = name.strip(), nows(expr)
            if expr == name:
                src = name
            elif expr == "self." + name or re.fullmatch(r"self\.\w+", expr):
                src = expr[len("self."):]
            else:
                raise TranslateError("into_msg: field %s of the SubMsg literal is `%s`, not a field of self" % (name, expr))
            fmap.append((name, src))
        return table, arm_feats, fmap

    def part_remote():
        # ---- Remote
        rk = [k for k in sdefs if k == "types.rs::Remote"]
        if not rk:
            raise TranslateError("types.rs: struct Remote not found")
        rattrs = [nows(a)[2:-1] if nows(a).startswith("#[") else nows(a) for a in sdefs[rk[0]]]
        rfields = [(n, nows(t), [nows(a)[2:-1] for a in attrs]) for n, t, attrs in sfields.get(rk[0], [])]
        # schema_name of Remote: the string literal returned by the hand-written JsonSchema impl
        schema_name = None
        types_src = open(os.path.join(common.REPO, "sylvia", "src", "types.rs")).read()
        # (however the String is built from it: "..".to_owned(), String::from(".."), "..".into(), format!(".."))
        m = re.search(r"JsonSchema\s+for\s+Remote<[^{]*\{.*?fn\s+schema_name\s*\(\s*\)\s*->\s*[\w:]+\s*\{(.*?)\}", types_src, flags=re.S)
        lits = re.findall(r'"([^"\\{}]*)"', m.group(1)) if m else []
        if len(lits) != 1 or re.search(r"\b(type_name|module_path|format_args|concat)\b|\{\}", m.group(1)):
            raise TranslateError("types.rs: Remote's schema_name is not a single string literal")
        schema_name = lits[0]
        return rattrs, rfields, schema_name

    try:
        table, arm_feats, fmap = part_into_msg()
    except TranslateError as e:
        (table, arm_feats, fmap), part_errors["into_msg"] = ([], [], []), str(e)
    try:
        rattrs, rfields, schema_name = part_remote()
    except TranslateError as e:
        (rattrs, rfields, schema_name), part_errors["remote"] = ([], [], ""), str(e)
    try:
        variant_feats = cosmos_variant_features()
        feat_table = sylvia_feature_table()
    except TranslateError as e:
        (variant_feats, feat_table), part_errors["features"] = ([], []), str(e)
    LAST_LIB.clear()
    LAST_LIB.update({"arm_feats": arm_feats, "variant_feats": variant_feats, "feat_table": feat_table, "errors": part_errors})
    cs = common.coq_string
    text = "\n".join([
        "(* GENERATED on every run by py/verif/translate.py from /repo/sylvia/src. Do not edit. *)",
        "From Coq Require Import String List.", "Import ListNotations.", "Open Scope string_scope.",
        "Definition into_msg_arms : list (string * string) :=",
        "  " + common.coq_list(["(%s, %s)" % (cs(a), cs(b)) for a, b in table]) + ".",
        "Definition submsg_field_map : list (string * string) :=",
        "  " + common.coq_list(["(%s, %s)" % (cs(a), cs(b)) for a, b in fmap]) + ".",
        "Definition remote_fields : list (string * string * list string) :=",
        "  " + common.coq_list(["(%s, %s, %s)" % (cs(n), cs(t), common.coq_list([cs(a) for a in attrs])) for n, t, attrs in rfields]) + ".",
        "Definition remote_type_attrs : list string := " + common.coq_list([cs(a) for a in rattrs]) + ".",
        "Definition remote_schema_name : string := %s." % cs(schema_name),
        "(* cfg(feature = ..) of each arm of IntoMsg::into_msg (sylvia feature names) *)",
        "Definition into_msg_arm_features : list (string * list string) :=",
        "  " + common.coq_list(["(%s, %s)" % (cs(v), common.coq_list([cs(f) for f in fs])) for v, fs in arm_feats]) + ".",
        "(* the variants of cosmwasm_std::CosmosMsg with the cosmwasm-std features that define them (from the source of the",
        "   cosmwasm-std version pinned in Cargo.lock) *)",
        "Definition cosmos_variant_features : list (string * list string) :=",
        "  " + common.coq_list(["(%s, %s)" % (cs(v), common.coq_list([cs(f) for f in fs])) for v, fs in variant_feats]) + ".",
        "(* sylvia/Cargo.toml [features]: name, the sylvia features it implies, the cosmwasm-std features it enables *)",
        "Definition sylvia_features : list (string * (list string * list string)) :=",
        "  " + common.coq_list(["(%s, (%s, %s))" % (cs(n), common.coq_list([cs(x) for x in imp]), common.coq_list([cs(x) for x in fwd]))
                                for n, imp, fwd in feat_table]) + ".", ""])
    return text


def cfg_features(attrs, what):
    """features required by a list of attributes: only `#[cfg(feature = "x")]` is understood; `allow`/`doc` are ignored"""
    feats = []
    for a in attrs:
        t = nows(a)
        m = re.fullmatch(r'#\[cfg\(feature="([\w-]+)"\)\]', t)
        m2 = re.fullmatch(r'#\[cfg\(all\(((?:feature="[\w-]+",?)+)\)\)\]', t)
        if m:
            feats.append(m.group(1))
        elif m2:
            feats.extend(re.findall(r'feature="([\w-]+)"', m2.group(1)))     # a conjunction, like several cfg attributes
        elif t.startswith("#[cfg"):
            raise TranslateError("%s: unsupported cfg attribute %s" % (what, a))
    return feats


def cosmwasm_std_src():
    lock = open(os.path.join(common.REPO, "Cargo.lock")).read()
    m = re.search(r'name = "cosmwasm-std"\nversion = "([^"]+)"', lock)
    if not m:
        raise TranslateError("Cargo.lock: cosmwasm-std not found")
    import glob
    cands = glob.glob(os.path.expanduser("~/.cargo/registry/src/*/cosmwasm-std-%s/src/results/cosmos_msg.rs" % m.group(1)))
    if not cands:
        raise TranslateError("source of cosmwasm-std %s not found in the cargo registry" % m.group(1))
    return cands[0]


def cosmos_variant_features():
    res = common.probe_run([("e", "ast", "", cosmwasm_std_src())], shards=1, tag="cwstd")
    out = []
    for k, v in res.get("e", []):
        if k == "enumv":
            parts = v.split(" @@ ")
            parts += [""] * (3 - len(parts))
            if parts[0].strip() == "CosmosMsg":
                out.append((parts[1].strip(), cfg_features([a for a in parts[2].split(" ;; ") if a.strip()], "CosmosMsg::" + parts[1])))
    if not out:
        raise TranslateError("cosmwasm-std: enum CosmosMsg not found")
    return out


def sylvia_feature_table():
    import tomllib
    with open(os.path.join(common.REPO, "sylvia", "Cargo.toml"), "rb") as f:
        feats = tomllib.load(f).get("features", {})
    out = []
    for name, items in feats.items():
        if name == "default":
            continue
        implied = [i for i in items if "/" not in i and not i.startswith("dep:")]
        fwd = [i.split("/", 1)[1] for i in items if i.startswith("cosmwasm-std/")]
        out.append((name, implied, fwd))
    return out


def write_genlib(text):
    path = os.path.join(COQ, "theories", "Model", "GenLib.v")
    old = open(path).read() if os.path.exists(path) else None
    if old != text:
        with open(path, "w") as f:
            f.write(text)
    return path


def fetch_tables():
    kv = fetch_raw("sylvia-derive")
    matches = {}
    templates = []
    diags = []
    errors = []
    for k, v in kv:
        if k == "arm":
            parts = v.split(" @@ ")
            if len(parts) < 4:
                parts += [""] * (4 - len(parts))
            key, pat, guard, body = parts[0], parts[1], parts[2], " @@ ".join(parts[3:])
            matches.setdefault(key, []).append((pat.strip(), guard.strip(), body.strip()))
        elif k == "template":
            parts = v.split(" @@ ", 2)
            templates.append((parts[0], parts[1], parts[2] if len(parts) > 2 else ""))
        elif k == "diag":
            parts = v.split(" @@ ", 2)
            diags.append((parts[0], parts[1], parts[2] if len(parts) > 2 else ""))
        elif k == "file_error":
            errors.append(v)
    if errors:
        raise TranslateError("unparsable source files: %s" % errors)
    return matches, templates, diags


def _need(matches, key):
    if key not in matches:
        cands = [k for k in matches if k.split("#")[0] == key.split("#")[0]]
        raise TranslateError("table %s not found in current source (candidates: %s)" % (key, cands))
    return matches[key]


def _lit(pat):
    m = re.fullmatch(r'"([^"\\]*)"', pat)
    return m.group(1) if m else None


def _kind_of_value(body):
    m = re.search(r"(?:Self|MsgType)\s*::\s*(\w+)", body)
    if not m or m.group(1) not in KINDS:
        return None
    return KINDS[m.group(1)]


def string_to_kind(matches, key, name):
    arms = _need(matches, key)
    out = []
    seen_default = False
    for pat, guard, body in arms:
        lit = _lit(pat)
        if lit is not None and not guard:
            k = _kind_of_value(body)
            if k is None:
                raise TranslateError("%s: arm %s => %s is not a kind" % (key, pat, body[:60]))
            out.append((lit, k))
        elif pat in ("_", "& _"):
            seen_default = True
            if "Err" not in body:
                raise TranslateError("%s: default arm is not an error: %s" % (key, body[:80]))
        else:
            raise TranslateError("%s: unexpected arm pattern %s" % (key, pat))
    if not seen_default:
        raise TranslateError("%s: no default arm" % key)
    body = "".join("  if s =? %s then Some %s else\n" % (common.coq_string(l), k) for l, k in out) + "  None"
    return "Definition %s (s : string) : option kind :=\n%s.\n" % (name, body), out


def string_to_tag(matches, key, name, tag_rx, allow_default_none=False):
    """string -> option string (tag extracted from body by regex)."""
    arms = _need(matches, key)
    out = []
    for pat, guard, body in arms:
        lit = _lit(pat)
        if lit is not None and not guard:
            m = re.search(tag_rx, body)
            if not m:
                raise TranslateError("%s: arm %s => %s does not match %s" % (key, pat, body[:60], tag_rx))
            out.append((lit, m.group(1)))
        elif pat in ("_", "& _"):
            if not (("Err" in body) or (allow_default_none and body.strip() == "None")):
                raise TranslateError("%s: unexpected default arm %s" % (key, body[:80]))
        else:
            raise TranslateError("%s: unexpected arm pattern %s" % (key, pat))
    body = "".join("  if s =? %s then Some %s else\n" % (common.coq_string(l), common.coq_string(t)) for l, t in out) + "  None"
    return "Definition %s (s : string) : option string :=\n%s.\n" % (name, body), out


def _kinds_of_pattern(pat):
    """`Self :: Exec` / `MsgType :: Exec` / `Exec | Instantiate` -> list of kinds, or None for `_`."""
    if pat.strip() == "_":
        return None
    ks = []
    for alt in pat.split("|"):
        alt = alt.strip()
        m = re.fullmatch(r"(?:(?:Self|MsgType)\s*::\s*)?(\w+)", alt)
        if not m or m.group(1) not in KINDS:
            raise TranslateError("unexpected kind pattern: %s" % pat)
        ks.append(KINDS[m.group(1)])
    return ks


def _macro_body(body):
    """`parse_quote ! { X }` / `quote ! { X }` / `{ quote ! { X } }` -> X"""
    b = body.strip()
    m = re.fullmatch(r"\{\s*((?:parse_quote|quote)\s*!\s*\{.*\})\s*\}", b, flags=re.S)
    if m:
        b = m.group(1)
    m = re.fullmatch(r"(?:parse_quote|quote)\s*!\s*\{(.*)\}", b, flags=re.S)
    if not m:
        return None
    return m.group(1).strip()


def kind_to_string(matches, key, name, fallback=None):
    arms = _need(matches, key)
    table = {}
    for pat, guard, body in arms:
        if guard:
            raise TranslateError("%s: guarded arm" % key)
        ks = _kinds_of_pattern(pat)
        if ks is None:
            if fallback is None:
                raise TranslateError("%s: unexpected default arm" % key)
            if not re.search(r"self\s*\.\s*%s\s*\(\s*\)" % fallback[0], body):
                raise TranslateError("%s: default arm is not self.%s(): %s" % (key, fallback[0], body))
            for k in KIND_ORDER:
                table.setdefault(k, fallback[1][k])
            continue
        val = _macro_body(body)
        if val is None:
            raise TranslateError("%s: arm body is not a quote: %s" % (key, body[:80]))
        for k in ks:
            if k in table:
                raise TranslateError("%s: kind %s matched twice" % (key, k))
            table[k] = val
    missing = [k for k in KIND_ORDER if k not in table]
    if missing:
        raise TranslateError("%s: kinds not covered: %s" % (key, missing))
    body = "\n".join("  | %s => %s" % (k, common.coq_string(table[k])) for k in KIND_ORDER)
    return "Definition %s (k : kind) : string :=\n  match k with\n%s\n  end.\n" % (name, body), table


def kind_to_idents(matches, key, name):
    """kind -> list of identifiers (comma separated in the quote)."""
    arms = _need(matches, key)
    table = {}
    for pat, guard, body in arms:
        ks = _kinds_of_pattern(pat)
        val = _macro_body(body)
        if ks is None or val is None:
            raise TranslateError("%s: unexpected arm %s => %s" % (key, pat, body[:60]))
        ids = [x.strip() for x in val.split(",") if x.strip()]
        for k in ks:
            if k in table:
                raise TranslateError("%s: kind %s matched twice" % (key, k))
            table[k] = ids
    missing = [k for k in KIND_ORDER if k not in table]
    if missing:
        raise TranslateError("%s: kinds not covered: %s" % (key, missing))
    body = "\n".join("  | %s => %s" % (k, common.coq_list([common.coq_string(i) for i in table[k]])) for k in KIND_ORDER)
    return "Definition %s (k : kind) : list string :=\n  match k with\n%s\n  end.\n" % (name, body), table


STUBS = {"kind": "Definition %s (s : string) : option kind := stub_opt s.\n",
         "tag": "Definition %s (s : string) : option string := stub_opt s.\n",
         "kstr": "Definition %s (k : kind) : string := stub_str k.\n",
         "kids": "Definition %s (k : kind) : list string := stub_list k.\n"}

# the properties whose model depends directly on a table (a table that cannot be regenerated is a broken translator
# obligation for them; the other properties see a stub and are decided by their own proofs and correspondence runs)
ALL_PROPS = {"C%02d" % i for i in range(1, 21)}
PRIMARY = {
    "msg_kind_of_string": ALL_PROPS - {"C05", "C10", "C19", "C20"},
    "override_kind_of_string": {"C04", "C06", "C12", "C14"},
    "msg_attr_kind_of_string": {"C17"},
    "sv_attr_of_string": {"C13", "C17", "C18"},
    "reply_on_tag_of_string": {"C07", "C08", "C14", "C18"},
    "data_flag_of_string": {"C09", "C18"},
    "feature_of_string": {"C06", "C07", "C18"},
    "payload_flag_of_string": {"C08", "C18"},
    "custom_key_of_string": {"C11", "C18"},
    "msg_arg_of_string": {"C16", "C18", "C07", "C08"},
    "msg_name": {"C01", "C03", "C04"}, "wrapper_name": {"C03", "C04"}, "accessor_name": {"C03", "C04", "C10"},
    "wrapper_accessor_name": {"C03", "C04", "C06"}, "ep_name": {"C04", "C05", "C06"},
    "ctx_values": {"C02", "C06"}, "ctx_params_template": {"C02"}, "ctx_type_template": {"C02"}, "result_type_template": {"C02"},
}


def generate():
    """Returns (coq_text, info dict, matches, templates, diags). A table whose source no longer has the expected shape is
    emitted as a stub (never a stale copy) and listed in info["errors"]; only unparsable sources raise."""
    matches, templates, diags = fetch_tables()
    parts = ["(* GENERATED on every run by py/verif/translate.py from /repo/sylvia-derive/src. Do not edit. *)",
             "From Coq Require Import String List.", "Import ListNotations.", "Require Import SV.Model.Kinds.",
             "Open Scope string_scope.", ""]
    info = {"errors": {}}

    def table(shape, name, fn, *args, post=None, **kw):
        try:
            t, val = fn(matches, *args, **kw)
            if post:
                t = post(t)
            parts.append(t)
            return val
        except TranslateError as e:
            info["errors"][name] = str(e)
            parts.append("(* NOT TRANSLATED: %s *)\n" % str(e).replace("*)", "* )") + STUBS[shape] % name)
            return None

    info["msg_kind"] = table("kind", "msg_kind_of_string", string_to_kind, "types/msg_type.rs::MsgType::new#m0", "msg_kind_of_string")
    info["override_kind"] = table("kind", "override_kind_of_string", string_to_kind,
                                  "parser/attributes/override_entry_point.rs::<OverrideEntryPointasParse>::parse#m0", "override_kind_of_string")
    info["msg_attr_kind"] = table("kind", "msg_attr_kind_of_string", string_to_kind,
                                  "parser/attributes/attr.rs::<MsgAttrForwardingasParse>::parse#m0", "msg_attr_kind_of_string")
    info["sv_attr"] = table("tag", "sv_attr_of_string", string_to_tag, "parser/attributes/mod.rs::SylviaAttribute::match_attribute#m0",
                            "sv_attr_of_string", r"Some\s*\(\s*Self\s*::\s*(\w+)\s*\)", allow_default_none=True)
    info["reply_on"] = table("tag", "reply_on_tag_of_string", string_to_tag, "parser/attributes/msg.rs::ReplyOn::new#m0",
                             "reply_on_tag_of_string", r"Ok\s*\(\s*Self\s*::\s*(\w+)\s*\)")
    info["data_flag"] = table("tag", "data_flag_of_string", string_to_tag, "parser/attributes/data.rs::<DataFieldParamsasParse>::parse#m0",
                              "data_flag_of_string", r"data\s*\.\s*(\w+)\s*=\s*true")
    info["feature"] = table("tag", "feature_of_string", string_to_tag, "parser/attributes/features.rs::<SylviaFeaturesasParse>::parse#m0",
                            "feature_of_string", r"features\s*\.\s*(\w+)\s*=\s*true")
    # the payload arm body is `()`: tag it "raw"
    info["payload_flag"] = table("tag", "payload_flag_of_string", string_to_tag, "parser/attributes/payload.rs::<PayloadFieldParamasParse>::parse#m0",
                                 "payload_flag_of_string", r"^(\(\s*\))$",
                                 post=lambda t: t.replace('Some "()"', 'Some "raw"').replace('Some "( )"', 'Some "raw"'))
    if "payload_flag_of_string" in info["errors"]:
        # the parser may compare the identifier with its only accepted literal instead of matching on it
        # (`if option != "raw" { return Err(..) }`): same table, another spelling
        try:
            src = open(os.path.join(common.REPO, "sylvia-derive", "src", "parser", "attributes", "payload.rs")).read()
            m = re.search(r"impl\s+Parse\s+for\s+PayloadFieldParam\s*\{(.*?)\n\}", src, flags=re.S)
            body = m.group(1) if m else ""
            lits = re.findall(r'(\w+)\s*!=\s*"(\w+)"\s*\{\s*return\s+Err', body)
            if len(lits) == 1 and len(re.findall(r'"\w+"', re.sub(r'"[^"]*\\n[^"]*"', "", body))) >= 1 and "match" not in body:
                lit = lits[0][1]
                parts[-1] = ("Definition payload_flag_of_string (s : string) : option string :=\n  if s =? %s then Some \"raw\" else\n  None.\n"
                             % common.coq_string(lit)) if lit == "raw" else parts[-1]
                if lit == "raw":
                    del info["errors"]["payload_flag_of_string"]
                    info["payload_flag"] = [(lit, "raw")]
        except OSError:
            pass
    if "feature_of_string" in info["errors"]:
        # the same for `if feature != "replies" { return Err(..) } features.replies = true;`
        try:
            src = open(os.path.join(common.REPO, "sylvia-derive", "src", "parser", "attributes", "features.rs")).read()
            m = re.search(r"impl\s+Parse\s+for\s+SylviaFeatures\s*\{(.*?)\n\}", src, flags=re.S)
            body = m.group(1) if m else ""
            lits = re.findall(r'(\w+)\s*!=\s*"(\w+)"\s*\{\s*return\s+Err', body)
            sets = re.findall(r"features\s*\.\s*(\w+)\s*=\s*true", body)
            if len(lits) == 1 and len(sets) == 1 and "match" not in body and '== "' not in body:
                idx = [i for i, p_ in enumerate(parts) if "feature_of_string" in p_]
                if idx:
                    parts[idx[-1]] = ("Definition feature_of_string (s : string) : option string :=\n  if s =? %s then Some %s else\n  None.\n"
                                      % (common.coq_string(lits[0][1]), common.coq_string(sets[0])))
                    del info["errors"]["feature_of_string"]
                    info["feature"] = [(lits[0][1], sets[0])]
        except OSError:
            pass
    info["custom_key"] = table("tag", "custom_key_of_string", string_to_tag, "parser/attributes/custom.rs::<CustomasParse>::parse#m0",
                               "custom_key_of_string", r"custom\s*\.\s*(\w+)\b")
    info["msg_arg"] = table("tag", "msg_arg_of_string", string_to_tag, "parser/attributes/msg.rs::<ArgumentParserasParse>::parse#m0",
                            "msg_arg_of_string", r"result\s*\.\s*(\w+)")

    msg_name = table("kstr", "msg_name", kind_to_string, "types/msg_type.rs::MsgType::emit_msg_name#m0", "msg_name")
    table("kstr", "wrapper_name", kind_to_string, "types/msg_type.rs::MsgType::emit_msg_wrapper_name#m0", "wrapper_name",
          fallback=("emit_msg_name", msg_name) if msg_name else None)
    acc = table("kstr", "accessor_name", kind_to_string, "types/msg_type.rs::MsgType::as_accessor_name#m0", "accessor_name")
    table("kstr", "wrapper_accessor_name", kind_to_string, "types/msg_type.rs::MsgType::as_accessor_wrapper_name#m0", "wrapper_accessor_name",
          fallback=("as_accessor_name", acc) if acc else None)
    info["ep_name"] = table("kstr", "ep_name", kind_to_string, "types/msg_type.rs::MsgType::emit_ep_name#m0", "ep_name")
    info["ctx_values"] = table("kids", "ctx_values", kind_to_idents, "types/msg_type.rs::MsgType::emit_ctx_values#m0", "ctx_values")
    info["ctx_params"] = table("kstr", "ctx_params_template", kind_to_string, "types/msg_type.rs::MsgType::emit_ctx_params#m0", "ctx_params_template")
    info["ctx_type"] = table("kstr", "ctx_type_template", kind_to_string, "types/msg_type.rs::MsgType::emit_ctx_type#m0", "ctx_type_template")
    info["result_type"] = table("kstr", "result_type_template", kind_to_string, "types/msg_type.rs::MsgType::emit_result_type#m0", "result_type_template")

    info["n_templates"] = len(templates)
    info["n_diags"] = len(diags)
    text = "\n".join(parts) + "\n"
    return text, info, matches, templates, diags


def regen_tables(run):
    """Regenerates GenTables.v for a check and reports what could not be translated (see PRIMARY)."""
    try:
        text, info, matches, templates, diags = generate()
    except TranslateError as e:
        run.translator_error(str(e))
        return None
    write_gentables(text)
    for name, msg in info["errors"].items():
        if run.pid in PRIMARY.get(name, ALL_PROPS):
            run.translator_error("table %s: %s" % (name, msg))
        else:
            run.notes.append("table %s could not be regenerated (stub emitted; not a table of this property's model): %s" % (name, msg))
    return info, matches, templates, diags


def write_gentables(text):
    path = os.path.join(COQ, "theories", "Model", "GenTables.v")
    old = open(path).read() if os.path.exists(path) else None
    if old != text:
        with open(path, "w") as f:
            f.write(text)
    return path


# ---------------------------------------------------------------------------------------------- templates (C19)
_TOK = re.compile(r"""'[A-Za-z_]\w*|[A-Za-z_]\w*|::|"(?:[^"\\]|\\.)*"|\d\w*|\S""")


def tokenize(text):
    return _TOK.findall(text)


def generate_templates():
    """GenTemplates.v: every quote!/parse_quote! template of sylvia-derive/src as a token list."""
    matches, templates, diags = fetch_tables()
    if len(templates) < 200:
        raise TranslateError("only %d quote! templates found in sylvia-derive/src (expected several hundred)" % len(templates))
    items = []
    for key, kind, toks in templates:
        ts = tokenize(toks)
        try:
            items.append("(%s, %s)" % (common.coq_string(key), common.coq_list([common.coq_string(t) for t in ts])))
        except ValueError:
            # non-ASCII inside a template (messages): keep the ASCII skeleton
            ts = [t if all(32 <= ord(c) <= 126 for c in t) else "<non-ascii>" for t in ts]
            items.append("(%s, %s)" % (common.coq_string(key), common.coq_list([common.coq_string(t) for t in ts])))
    text = "\n".join([
        "(* GENERATED on every run by py/verif/translate.py from /repo/sylvia-derive/src. Do not edit. *)",
        "From Coq Require Import String List.", "Import ListNotations.", "Open Scope string_scope.",
        "Definition templates : list (string * list string) :=", "  [" + ";\n   ".join(items) + "].", ""])
    return text, len(templates)


def write_gentemplates(text):
    path = os.path.join(COQ, "theories", "Model", "GenTemplates.v")
    old = open(path).read() if os.path.exists(path) else None
    if old != text:
        with open(path, "w") as f:
            f.write(text)
    return path
