"""Abstract programs (contracts / interfaces) with renderers to Rust source and to Coq terms."""
from dataclasses import dataclass, field
from typing import List, Optional, Tuple

from .common import coq_string, coq_list

KIND_COQ = {"instantiate": "KInst", "exec": "KExec", "query": "KQuery", "migrate": "KMigrate",
            "reply": "KReply", "sudo": "KSudo"}
CTX_TYPE = {"instantiate": "InstantiateCtx", "exec": "ExecCtx", "query": "QueryCtx", "migrate": "MigrateCtx",
            "reply": "ReplyCtx", "sudo": "SudoCtx"}


# ------------------------------------------------------------------------------------------ types
@dataclass(frozen=True)
class Ty:
    """kind: 'path' (segs: tuple of (name, tuple of Ty)), 'tuple' (items), 'ref' (items[0])"""
    kind: str
    segs: tuple = ()
    items: tuple = ()

    def rust(self):
        if self.kind == "path":
            out = []
            for name, args in self.segs:
                if args:
                    out.append("%s<%s>" % (name, ", ".join(a.rust() for a in args)))
                else:
                    out.append(name)
            return "::".join(out)
        if self.kind == "tuple":
            if len(self.items) == 1:
                return "(%s,)" % self.items[0].rust()
            return "(%s)" % ", ".join(a.rust() for a in self.items)
        if self.kind == "ref":
            return "&%s" % self.items[0].rust()
        raise ValueError(self.kind)

    def coq(self):
        if self.kind == "path":
            segs = coq_list(["(%s, %s)" % (coq_string(n), coq_list([a.coq() for a in args])) for n, args in self.segs])
            return "(TPath %s)" % segs
        if self.kind == "tuple":
            return "(TTuple %s)" % coq_list([a.coq() for a in self.items])
        if self.kind == "ref":
            return "(TRef %s)" % self.items[0].coq()
        raise ValueError(self.kind)


def P(name, *args):
    """simple path type `name<args>`"""
    return Ty("path", segs=((name, tuple(args)),))


def PP(*segs):
    """multi segment path; each seg is a str or (name, [args])"""
    out = []
    for s in segs:
        if isinstance(s, str):
            out.append((s, ()))
        else:
            out.append((s[0], tuple(s[1])))
    return Ty("path", segs=tuple(out))


def Tup(*items):
    return Ty("tuple", items=tuple(items))


def canon_tokens(s):
    """Canonical spelling of a token string: all whitespace removed (for comparing types/attrs)."""
    return "".join(s.split())


# ------------------------------------------------------------------------------------------ attributes
@dataclass
class Attr:
    """Either a foreign attribute (path + tokens) or a pre-parsed sv attribute."""
    path: Tuple[str, ...]           # e.g. ('serde',) or ('sv','msg')
    toks: str = ""                  # tokens inside the parentheses (foreign) or raw text for sv
    sv: Optional[tuple] = None      # structured form for sv attributes, see constructors below
    bare: bool = False              # no parentheses at all: #[path]

    def rust(self):
        p = "::".join(self.path)
        if self.bare:
            return "#[%s]" % p
        return "#[%s(%s)]" % (p, self.toks)

    def coq(self):
        if self.sv is not None:
            return "(ASv %s %s)" % (coq_string(self.path[1]), self.sv_coq())
        return "(AForeign %s %s)" % (coq_list([coq_string(x) for x in self.path]),
                                    coq_string(canon_tokens(self.rust())))

    def sv_coq(self):
        t = self.sv
        tag = t[0]
        if tag == "msg":
            _, kind, resp, handlers, reply_on = t
            return "(SvMsg %s %s %s %s)" % (coq_string(kind), coq_opt_str(resp),
                                            coq_list([coq_string(h) for h in handlers]), coq_opt_str(reply_on))
        if tag == "attr":
            return "(SvAttr %s)" % coq_string(canon_tokens(t[1]))
        if tag == "msg_attr":
            return "(SvMsgAttr %s %s)" % (coq_string(t[1]), coq_string(canon_tokens(t[2])))
        if tag == "messages":
            _, module, as_name, cmsg, cquery = t
            return "(SvMessages %s %s %s %s)" % (coq_list([coq_string(m) for m in module]), coq_opt_str(as_name),
                                                coq_bool(cmsg), coq_bool(cquery))
        if tag == "override":
            return "(SvOverride %s %s %s)" % (coq_string(t[1]), coq_string(canon_tokens(t[2])), coq_string(canon_tokens(t[3])))
        if tag == "custom":
            return "(SvCustom %s %s)" % (coq_opt_str(t[1]), coq_opt_str(t[2]))
        if tag == "error":
            return "(SvError %s)" % coq_string(canon_tokens(t[1]))
        if tag == "features":
            return "(SvFeatures %s)" % coq_list([coq_string(x) for x in t[1]])
        if tag == "data":
            return "(SvData %s)" % coq_list([coq_string(x) for x in t[1]])
        if tag == "payload":
            return "(SvPayload %s)" % coq_list([coq_string(x) for x in t[1]])
        raise ValueError(tag)


def coq_opt_str(s):
    return "None" if s is None else "(Some %s)" % coq_string(s)


def coq_bool(b):
    return "true" if b else "false"


def sv_msg(kind, resp=None, handlers=(), reply_on=None):
    parts = [kind]
    if resp is not None:
        parts.append("resp=%s" % resp)
    if handlers:
        parts.append("handlers=[%s]" % ", ".join(handlers))
    if reply_on is not None:
        parts.append("reply_on=%s" % reply_on)
    return Attr(("sv", "msg"), ", ".join(parts), sv=("msg", kind, resp, tuple(handlers), reply_on))


def sv_attr(toks):
    return Attr(("sv", "attr"), toks, sv=("attr", toks))


def sv_msg_attr(kind, toks):
    return Attr(("sv", "msg_attr"), "%s, %s" % (kind, toks), sv=("msg_attr", kind, toks))


def sv_messages(module, as_name=None, custom_msg=False, custom_query=False):
    t = "::".join(module)
    if as_name is not None:
        t += " as %s" % as_name
    cs = [c for c, on in (("msg", custom_msg), ("query", custom_query)) if on]
    if cs:
        t += ": custom(%s)" % ", ".join(cs)
    return Attr(("sv", "messages"), t, sv=("messages", tuple(module), as_name, custom_msg, custom_query))


def sv_override(kind, ep, msg):
    return Attr(("sv", "override_entry_point"), "%s=%s(%s)" % (kind, ep, msg), sv=("override", kind, ep, msg))


def sv_custom(msg=None, query=None):
    parts = []
    if msg is not None:
        parts.append("msg=%s" % msg)
    if query is not None:
        parts.append("query=%s" % query)
    return Attr(("sv", "custom"), ", ".join(parts), sv=("custom", msg, query))


def sv_error(t):
    return Attr(("sv", "error"), t, sv=("error", t))


def sv_features(names):
    return Attr(("sv", "features"), ", ".join(names), sv=("features", tuple(names)))


def sv_data(flags=(), bare=False):
    return Attr(("sv", "data"), ", ".join(flags), sv=("data", tuple(flags)), bare=bare)


def sv_payload(flags=("raw",)):
    return Attr(("sv", "payload"), ", ".join(flags), sv=("payload", tuple(flags)))


def foreign(path, toks=None):
    if isinstance(path, str):
        path = tuple(path.split("::"))
    if toks is None:
        return Attr(tuple(path), "", bare=True)
    return Attr(tuple(path), toks)


# ------------------------------------------------------------------------------------------ items
@dataclass
class Arg:
    name: str
    ty: Ty
    attrs: List[Attr] = field(default_factory=list)

    def rust(self, with_attrs=True):
        a = "".join(x.rust() + " " for x in self.attrs) if with_attrs else ""
        return "%s%s: %s" % (a, self.name, self.ty.rust())

    def coq(self):
        return "(mkArg %s %s %s)" % (coq_string(self.name), self.ty.coq(), coq_list([a.coq() for a in self.attrs]))


@dataclass
class Method:
    name: str
    attrs: List[Attr]                       # all attributes in source order (sv and foreign)
    args: List[Arg]                         # after self and ctx
    ret: Ty                                 # full return type, e.g. StdResult<Response>
    ctx_ty: str = "ExecCtx"
    vis: str = "pub"
    body: str = "{ todo!() }"
    self_attrs: List[Attr] = field(default_factory=list)
    ctx_attrs: List[Attr] = field(default_factory=list)
    is_handler_shape: bool = True           # has &self, ctx parameters

    def msg_attr(self):
        for a in self.attrs:
            if a.sv and a.sv[0] == "msg":
                return a.sv
        return None

    def kind(self):
        m = self.msg_attr()
        return m[1] if m else None

    def rust(self, in_trait=False, strip=False):
        attrs = self.attrs
        if strip:
            attrs = [a for a in attrs if not (a.sv is not None)]
        lines = [a.rust() for a in attrs]
        if self.is_handler_shape:
            sa = "" if strip else "".join(x.rust() + " " for x in self.self_attrs)
            ca = "" if strip else "".join(x.rust() + " " for x in self.ctx_attrs)
            params = ["%s&self" % sa, "%sctx: %s" % (ca, self.ctx_ty)]
        else:
            params = ["&self"]
        params += [a.rust(with_attrs=not strip) for a in self.args]
        vis = "" if in_trait or not self.vis else self.vis + " "
        sig = "%sfn %s(%s) -> %s" % (vis, self.name, ", ".join(params), self.ret.rust())
        if in_trait and self.body == "{ todo!() }":
            lines.append(sig + ";")
        else:
            lines.append(sig + " " + self.body)
        return "\n    ".join(lines)

    def coq(self):
        return "(mkMethod %s %s %s %s %s %s)" % (
            coq_string(self.name), coq_list([a.coq() for a in self.attrs]),
            coq_list([a.coq() for a in self.args]), self.ret.coq(),
            coq_list([a.coq() for a in self.self_attrs]), coq_list([a.coq() for a in self.ctx_attrs]))


@dataclass
class Other:
    """Non-method item (const, type, nested fn without self...) passed through verbatim."""
    text: str

    def rust(self, in_trait=False, strip=False):
        return self.text


@dataclass
class WPred:
    bounded: Ty
    bounds: List[Ty]

    def rust(self):
        return "%s: %s" % (self.bounded.rust(), " + ".join(b.rust() for b in self.bounds))

    def coq(self):
        return "(mkWPred %s %s)" % (self.bounded.coq(), coq_list([b.coq() for b in self.bounds]))


@dataclass
class Contract:
    name: str
    generics: List[str] = field(default_factory=list)
    where: List[WPred] = field(default_factory=list)
    attrs: List[Attr] = field(default_factory=list)
    items: list = field(default_factory=list)            # Method | Other
    has_new: bool = True
    new_params: str = ""

    def self_ty(self):
        if self.generics:
            return "%s<%s>" % (self.name, ", ".join(self.generics))
        return self.name

    def methods(self):
        return [m for m in self.items if isinstance(m, Method)]

    def rust_impl(self, strip=False, extra_attrs=()):
        attrs = self.attrs if not strip else [a for a in self.attrs if a.sv is None]
        lines = [a for a in extra_attrs] + [a.rust() for a in attrs]
        g = "<%s>" % ", ".join(self.generics) if self.generics else ""
        w = (" where " + ", ".join(p.rust() for p in self.where)) if self.where else ""
        lines.append("impl%s %s%s {" % (g, self.self_ty(), w))
        if self.has_new:
            lines.append("    pub const fn new(%s) -> Self { Self::construct() }" % self.new_params)
        for it in self.items:
            lines.append("    " + it.rust(strip=strip))
        lines.append("}")
        return "\n".join(lines)

    def coq(self):
        return "(mkContract %s %s %s %s %s %s %s)" % (
            coq_string(self.name), coq_list([coq_string(g) for g in self.generics]),
            coq_list([w.coq() for w in self.where]), coq_list([a.coq() for a in self.attrs]),
            coq_list([m.coq() for m in self.methods()]), coq_bool(self.has_new),
            coq_bool(self.new_params.strip() != ""))


@dataclass
class Interface:
    name: str
    module: Tuple[str, ...] = ()
    assoc: List[Tuple[str, List[Ty]]] = field(default_factory=list)    # (name, bounds), includes Error
    attrs: List[Attr] = field(default_factory=list)
    items: list = field(default_factory=list)
    generics: List[str] = field(default_factory=list)                  # must be empty for a valid interface

    def methods(self):
        return [m for m in self.items if isinstance(m, Method)]

    def rust_trait(self, strip=False):
        attrs = self.attrs if not strip else [a for a in self.attrs if a.sv is None]
        lines = [a.rust() for a in attrs]
        g = "<%s>" % ", ".join(self.generics) if self.generics else ""
        lines.append("pub trait %s%s {" % (self.name, g))
        for n, bounds in self.assoc:
            b = (": " + " + ".join(x.rust() for x in bounds)) if bounds else ""
            lines.append("    type %s%s;" % (n, b))
        for it in self.items:
            lines.append("    " + it.rust(in_trait=True, strip=strip))
        lines.append("}")
        return "\n".join(lines)

    def coq(self):
        return "(mkIface %s %s %s %s %s)" % (
            coq_string(self.name),
            coq_list(["(%s, %s)" % (coq_string(n), coq_list([b.coq() for b in bs])) for n, bs in self.assoc]),
            coq_list([a.coq() for a in self.attrs]), coq_list([m.coq() for m in self.methods()]),
            coq_list([coq_string(g) for g in self.generics]))
