"""Command line: python3 -m verif.cli <cmd> ..."""
import importlib
import os
import sys

from . import common, framework, translate, imp_translate


def cmd_gentables(argv):
    text, info, *_ = translate.generate()
    path = translate.write_gentables(text)
    print(path)
    try:
        print(translate.write_gentemplates(translate.generate_templates()[0]))
    except translate.TranslateError as e:
        common.log("GenTemplates translation failed: %s" % e)
    try:
        print(translate.write_genlib(translate.generate_lib()))
    except translate.TranslateError as e:
        # reported by the property checks; setup keeps the previous GenLib.v
        common.log("GenLib translation failed: %s" % e)
    text, errors = imp_translate.generate()
    print(imp_translate.write(text))
    for e in errors:
        common.log("GenImp: not translated: %s" % e)   # reported by the property checks (C05, C10)
    return 0


def cmd_setup(argv):
    common.build_probe()
    cmd_gentables([])
    ok, out, secs = common.coq_make()
    common.log("coq build ok=%s in %.1fs" % (ok, secs))
    if not ok:
        # a broken proof is reported by the property checks; setup only needs the tools built
        common.log(out[-3000:])
    for extra in ("libdiff", "corpus"):
        try:
            mod = importlib.import_module("verif." + extra)
        except ModuleNotFoundError:
            continue
        if hasattr(mod, "setup"):
            mod.setup()
    return 0


def cmd_check(argv):
    pid = argv[0]
    mod = importlib.import_module("verif.props." + pid.lower())
    return framework.main_wrapper(pid, mod.check, argv[1:])


def main():
    cmd = sys.argv[1]
    fn = {"gentables": cmd_gentables, "setup": cmd_setup, "check": cmd_check}[cmd]
    sys.exit(fn(sys.argv[2:]))


if __name__ == "__main__":
    main()
