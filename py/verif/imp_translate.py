"""Translator back-end for imperative run-time library code: the probe's S-expression dump of a Rust
file (harness/probe/probe.rs, `ast` request) -> terms of the deep-embedded language of
coq/theories/Model/Imp.v, written to coq/theories/Model/GenImp.v on every run.

Anything outside the supported subset makes the translation of that function fail loudly
(TranslateError): the checks then report a broken translator obligation, never a stale model."""
import os
import re

from . import common
from .common import COQ
from .translate import TranslateError


# ------------------------------------------------------------------------------------ S-expressions
def parse_sx(text):
    pos = 0
    n = len(text)

    def skip():
        nonlocal pos
        while pos < n and text[pos].isspace():
            pos += 1

    def parse():
        nonlocal pos
        skip()
        if pos >= n:
            raise TranslateError("unexpected end of S-expression")
        c = text[pos]
        if c == "(":
            pos += 1
            items = []
            while True:
                skip()
                if pos >= n:
                    raise TranslateError("unbalanced S-expression")
                if text[pos] == ")":
                    pos += 1
                    return items
                items.append(parse())
        if c == '"':
            pos += 1
            out = []
            while text[pos] != '"':
                if text[pos] == "\\":
                    pos += 1
                    out.append({"n": "\n"}.get(text[pos], text[pos]))
                else:
                    out.append(text[pos])
                pos += 1
            pos += 1
            return ("str", "".join(out))
        start = pos
        while pos < n and not text[pos].isspace() and text[pos] not in "()":
            pos += 1
        return text[start:pos]

    v = parse()
    skip()
    if pos != n:
        raise TranslateError("trailing text after S-expression")
    return v


def S(x):
    """python string of a quoted atom"""
    if isinstance(x, tuple) and x[0] == "str":
        return x[1]
    raise TranslateError("expected a string atom, got %r" % (x,))


cs = common.coq_string


def clist(items):
    return "[" + "; ".join(items) + "]"


# ------------------------------------------------------------------------------------ translation
def norm_seg(seg):
    """a path segment, possibly with generic arguments: `ExecutorBuilder<(EmptyExecutorBuilderState,Contract)>` ->
    `ExecutorBuilder[Empty]` (the type-state marker selects the impl block); other generic arguments are dropped"""
    base, lt, rest = seg.partition("<")
    if not lt:
        return seg
    for marker, tag in (("EmptyExecutorBuilderState", "Empty"), ("ReadyExecutorBuilderState", "Ready")):
        if marker in rest:
            return "%s[%s]" % (base, tag)
    return base


def impl_name(key):
    """name prefix of the methods of an impl block: `Type<..>` or `Type<..> as Trait<..>` -> `Type` / `Type[State]`"""
    ty = key.split(" as ")[0].strip()
    n = norm_seg(ty)
    if n == ty and "<" not in ty:
        return ty
    return n if "[" in n else ty.partition("<")[0]


class FnTranslator:
    def __init__(self, self_type=None, struct_fields=None):
        self.self_type = self_type
        self.struct_fields = struct_fields or {}
        self.calls = set()
        self.interior = False          # multitest.rs: RefCell / anyhow / map_err are given their meaning (see mcall)
        self.externals = set()         # method names that are operations of a foreign component
        self.own_methods = {}          # method name -> qualified name of a translated method it resolves to
        self.builder_methods = set()   # methods of foreign builder types that are built-ins of the same name
        self.uses_features = False
        self.aux_fns = []              # functions made from closures (see filter_map_lifted)
        self.scope_names = set()       # parameters and let-bound names of the function being translated
        self.fn_qualified = ""
        self.param_types = {}

    def con_name(self, segs):
        # (a value of a type-state builder is a record of the type, whatever the state marker)
        segs = [self.self_type.partition("[")[0] if (s == "Self" and self.self_type) else s.partition("[")[0] for s in segs]
        return "::".join(segs[-2:]) if len(segs) >= 2 else segs[0]

    def path_segs(self, sx):
        if not (isinstance(sx, list) and sx and sx[0] == "path"):
            raise TranslateError("expected a path, got %r" % (sx,))
        segs = [norm_seg(S(a)) for a in sx[1:]]
        if self.interior:
            # crate / module prefixes of fully qualified paths (generated code spells everything out)
            while len(segs) > 1 and segs[0] in CRATE_PREFIXES:
                segs = segs[1:]
        return segs

    # ---- patterns
    def pat(self, p):
        h = p[0]
        if h == "pwild":
            return "PWild"
        if h == "prest":
            return "PRest"
        if h == "pident":
            name = S(p[1])
            if name[:1].isupper():
                pre = getattr(self, "bare_con_prefix", "") if name not in ("None", "Some", "Ok", "Err") else ""
                return "(PCon %s [])" % cs(pre + name)
            return "(PVar %s)" % cs(name)
        if h == "ppath":
            return "(PCon %s [])" % cs(self.con_name(self.path_segs(p[1])))
        if h == "ptuplestruct":
            return "(PCon %s %s)" % (cs(self.con_name(self.path_segs(p[1]))), clist([self.pat(q) for q in p[2:]]))
        if h == "por":
            return "(POr %s)" % clist([self.pat(q) for q in p[1:]])
        if h == "pstruct":
            return "(PRec %s %s)" % (cs(self.con_name(self.path_segs(p[1]))),
                                     clist(["(%s, %s)" % (cs(S(f[1])), self.pat(f[2])) for f in p[2:] if f[0] == "pf"]))
        if h == "plit":
            return "(PLit %s)" % self.lit(p[1])
        if h == "ptuple":
            return "(PCon \"()\" %s)" % clist([self.pat(q) for q in p[1:]])
        raise TranslateError("unsupported pattern: %r" % (p,))

    def lit(self, e):
        h = e[0]
        if h == "int":
            v = int(e[1])
            if v > 5000:
                raise TranslateError("integer literal too large for the nat model: %d" % v)
            return "(VNat %d)" % v
        if h == "bool":
            return "(VBool %s)" % e[1]
        if h == "str":
            return "(VStr %s)" % cs(S(e[1]))
        raise TranslateError("unsupported literal %r" % (e,))

    # ---- places
    def place(self, e):
        """root variable and selectors of an assignable place"""
        h = e[0]
        if h in ("deref", "ref"):
            return self.place(e[1])
        if h == "path":
            segs = self.path_segs(e)
            if len(segs) != 1:
                raise TranslateError("assignment to a path %r" % (segs,))
            return segs[0], []
        if h == "index":
            x, sels = self.place(e[1])
            return x, sels + ["(LIdx %s)" % self.expr(e[2])]
        if h == "field":
            x, sels = self.place(e[1])
            return x, sels + ["(LFld %s)" % cs(S(e[2]))]
        raise TranslateError("unsupported assignment target %r" % (e,))

    # ---- expressions
    def block(self, b):
        if b[0] != "block":
            return self.expr(b)
        stmts = []
        items = b[1:]
        for k, s in enumerate(items):
            last = k == len(items) - 1
            h = s[0]
            if h == "let":
                stmts.append("SLet %s %s" % (self.pat(s[1]), self.expr(s[2])))
            elif h == "letconst":
                stmts.append("SLet (PVar %s) %s" % (cs(S(s[1])), self.expr(s[2])))
            elif h == "semi" or (h == "tail" and not last):
                stmts.append("SExpr %s" % self.expr(s[1]))
            elif h == "tail":
                stmts.append("STail %s" % self.expr(s[1]))
            elif h == "use" and self.interior:
                # `use Enum::*;` inside a body: bare variant names below belong to that enum
                mu = re.fullmatch(r"(\w+) :: \*", S(s[1]).strip())
                if not mu:
                    raise TranslateError("unsupported `use` inside a body: %s" % S(s[1]))
                self.bare_con_prefix = mu.group(1) + "::"
            else:
                raise TranslateError("unsupported statement %r" % (s,))
        return "(EBlock %s)" % clist(stmts)

    def expr(self, e):
        if not isinstance(e, list) or not e:
            raise TranslateError("malformed expression %r" % (e,))
        h = e[0]
        if h in ("int", "bool", "str"):
            return "(EConst %s)" % self.lit(e)
        if h == "unit":
            return "(EConst VUnit)"
        if h == "tuple":
            return "(ECon \"()\" %s)" % clist([self.expr(a) for a in e[1:]])
        if h == "path":
            segs = self.path_segs(e)
            if len(segs) == 1 and not segs[0][:1].isupper():
                return "(EVar %s)" % cs(segs[0])
            if len(segs) == 1 and self.interior and segs[0] in getattr(self, "const_values", {}):
                return "(EConst (VNat %d))" % self.const_values[segs[0]]      # a numeric constant of the crate, read from its definition
            if len(segs) == 1 and self.interior and segs[0] in getattr(self, "symbolic_consts", ()):
                return "(ECon %s [])" % cs("const::" + segs[0])      # a named constant of the crate, kept by name
            if len(segs) == 1 and segs[0].isupper():
                return "(EVar %s)" % cs(segs[0])          # const generic parameter such as N
            return "(ECon %s [])" % cs(self.con_name(segs))
        if h in ("ref", "deref"):
            return self.expr(e[1])
        if h == "not":
            return "(ENot %s)" % self.expr(e[1])
        if h == "bin":
            return "(EBin %s %s %s)" % (cs(S(e[1])), self.expr(e[2]), self.expr(e[3]))
        if h == "assign":
            x, sels = self.place(e[1])
            return "(EAssign %s %s %s)" % (cs(x), clist(sels), self.expr(e[2]))
        if h == "assignop":
            x, sels = self.place(e[2])
            if any("ECall" in s for s in sels):
                raise TranslateError("compound assignment through a call: %r" % (e,))
            return "(EAssign %s %s (EBin %s %s %s))" % (cs(x), clist(sels), cs(S(e[1])), self.expr(e[2]), self.expr(e[3]))
        if h == "index":
            return "(EIndex %s %s)" % (self.expr(e[1]), self.expr(e[2]))
        if h == "field":
            return "(EField %s %s)" % (self.expr(e[1]), cs(S(e[2])))
        if h == "call":
            segs = self.path_segs(e[1])
            if self.interior and "::".join(segs) in ("RefMut::map", "Ref::map") and len(e) == 4 and e[3][0] == "closure" \
                    and len(e[3][1]) == 2 and e[3][1][1][0] == "pident" and e[3][2] == ["path", e[3][1][1][1]]:
                return self.expr(e[2])             # a borrow mapped through the identity closure
            muts = [S(a[1][1]) for a in e[2:] if a[0] == "refmut" and a[1][0] == "path" and len(a[1]) == 2]
            reb = [S(a[1]) for a in e[2:] if a[0] == "path" and len(a) == 2 and S(a[1]) in getattr(self, "mut_params_state", ())]
            if reb and not muts and self.interior and len(reb) == 1 and FOREIGN.get("::".join(segs), "").startswith("call:"):
                # the function's own `&mut` parameter handed on (a reborrow): the same protocol
                x, tgt = reb[0], FOREIGN["::".join(segs)][5:]
                self.calls.add(tgt)
                return ("(EBlock [SLet (PCon \"()\" [PVar \"st_res\"; PVar \"st_new\"]) (ECall %s %s); "
                        "SExpr (EAssign %s [] (EVar \"st_new\")); STail (EVar \"st_res\")])" % (
                            cs(tgt), clist([self.expr(a) for a in e[2:]]), cs(x)))
            if muts:
                # `f(.., &mut x, ..)` with f an operation of another component: f answers (result, new value of x); x takes it
                name = "::".join(segs)
                if not (self.interior and len(muts) == 1 and FOREIGN.get(name, "").startswith("call:")):
                    raise TranslateError("`&mut` argument in a call of %s" % name)
                x, tgt = muts[0], FOREIGN[name][5:]
                self.calls.add(tgt)
                argl = clist([("(EVar %s)" % cs(x)) if a[0] == "refmut" else self.expr(a) for a in e[2:]])
                return ("(EBlock [SLet (PCon \"()\" [PVar \"st_res\"; PVar \"st_new\"]) (ECall %s %s); "
                        "SExpr (EAssign %s [] (EVar \"st_new\")); STail (EVar \"st_res\")])" % (cs(tgt), argl, cs(x)))
            args = clist([self.expr(a) for a in e[2:]])
            if self.interior and segs == ["Self", "default"] and len(e) == 2 and self.struct_fields and getattr(self, "derive_default", False):
                # `#[derive(Default)]`: every field takes the default of its type
                def dflt(ty):
                    ty = "".join(ty.split())
                    if ty.startswith("Option<"):
                        return "ECon \"None\" []"
                    if ty.startswith("Vec<"):
                        return "EArr []"
                    return "ECon %s []" % cs(ty.partition("<")[0] + "::default")
                fields = ["(%s, %s)" % (cs(f), dflt(ty)) for f, ty in self.struct_fields.items()]
                if getattr(self, "diag_sink", None):
                    fields.append("(\"__diags\", EArr [])")
                return "(ERecord %s %s None)" % (cs(self.self_type), clist(fields))
            if segs[-1][:1].isupper():
                return "(ECon %s %s)" % (cs(self.con_name(segs)), args)
            if segs[0] == "Self" and self.self_type:
                segs = [self.self_type] + segs[1:]
            name = "::".join(segs)
            if self.interior and name in FOREIGN:
                tgt = FOREIGN[name]
                if tgt == "into":
                    return "(ECall \"into\" %s)" % args
                if tgt.startswith("call:"):
                    self.calls.add(tgt[5:])
                    return "(ECall %s %s)" % (cs(tgt[5:]), args)
                if tgt.startswith("ok:"):
                    return "(ECon \"Ok\" [ECon %s %s])" % (cs(tgt[3:]), args)
                return "(ECon %s %s)" % (cs(tgt), args)
            self.calls.add(name)
            return "(ECall %s %s)" % (cs(name), args)
        if h == "mcall":
            name = S(e[2])
            if self.interior and name.replace(" ", "") in ("collect<Vec<_>>",):
                name = "collect"
                e = [e[0], e[1], ("str", "collect")] + e[3:]
            if name == "unwrap_or_default" and not getattr(self, "unwrap_default_vec", False):
                name = self.unwrap_default_name(e[1])
            if name == "into" and self.interior and e[1][0] == "path" and len(e[1]) == 2 and \
                    "".join(self.param_types.get(S(e[1][1]), "").split()).startswith("implInto<Option<"):
                # `x.into()` of a parameter declared `impl Into<Option<T>>`: an Option stays, anything else becomes Some
                return "(ECall \"into_option\" [%s])" % self.expr(e[1])
            if self.interior and name in getattr(self, "state_methods", {}) and e[1][0] == "path" and len(e[1]) == 2:
                # a method that updates its receiver (translated by state passing): the receiver becomes the returned state
                x, q = S(e[1][1]), self.state_methods[name]
                self.calls.add(q)
                return "(EAssign %s [] (ECall %s %s))" % (cs(x), cs(q), clist(["EVar %s" % cs(x)] + [self.expr(a) for a in e[3:]]))
            if self.interior and name == "push" and len(e) == 4 and e[1][0] == "field":
                x, sels = self.place(e[1])          # `obj.field.push(x)`: that field becomes field ++ [x]
                return "(EAssign %s %s (ECall \"push\" [%s; %s]))" % (cs(x), clist(sels), self.expr(e[1]), self.expr(e[3]))
            if self.interior and name == "first" and len(e) == 3:
                return ("(EIf (ECall \"is_empty\" [%s]) (ECon \"None\" []) (ECon \"Some\" [EIndex %s (EConst (VNat 0))]))" % (
                    self.expr(e[1]), self.expr(e[1])))
            if self.interior and name == "push" and len(e) == 4 and e[1][0] == "path" and len(e[1]) == 2:
                x = S(e[1][1])                     # `v.push(x)` on a local vector: v = v ++ [x]
                return "(EAssign %s [] (ECall \"push\" [EVar %s; %s]))" % (cs(x), cs(x), self.expr(e[3]))
            if self.interior and name == "collect" and len(e) == 3 and e[1][0] == "mcall" and S(e[1][2]) in ("iter", "into_iter") and len(e[1]) == 3:
                return self.expr(e[1][1])          # `xs.iter().collect()`: the same elements
            if self.interior and name in ("map", "collect", "zip") and self.has_zip(e):
                return self.iter_pipeline(e)
            if self.interior and name == "collect" and len(e) == 3 and e[1][0] == "mcall" and S(e[1][2]) == "map":
                return self.expr(e[1])             # the list of a mapped iterator, collected
            if self.interior and name in getattr(self, "symbolic_methods", ()):
                return "(ECon %s %s)" % (cs("." + name), clist([self.expr(e[1])] + [self.expr(a) for a in e[3:]]))
            if self.interior and name in getattr(self, "accessor_methods", ()) and len(e) == 3:
                return "(EField %s %s)" % (self.expr(e[1]), cs(name))
            if self.interior and name == "map" and len(e) == 4 and e[3][0] in ("closure", "path") and e[1][0] == "mcall" and \
                    S(e[1][2]) in ("into_iter", "iter") and len(e[1]) == 3:
                return self.array_map(e[1][1], e[3])
            if self.interior and name == "collect" and len(e) == 3 and e[1][0] == "mcall" and S(e[1][2]) == "filter":
                return self.expr(e[1])
            if self.interior and name == "filter" and len(e) == 4 and e[3][0] == "closure" and e[1][0] == "mcall" and \
                    S(e[1][2]) in ("into_iter", "iter") and len(e[1]) == 3:
                return self.array_filter(e[1][1], e[3])
            if self.interior and name == "or" and len(e) == 4:
                # Option::or: the receiver when it is Some, the argument otherwise
                return "(EMatch %s [(PCon \"Some\" [PVar \"or_v\"], ECon \"Some\" [EVar \"or_v\"]); (PCon \"None\" [], %s)])" % (
                    self.expr(e[1]), self.expr(e[3]))
            if self.interior and name == "unwrap_or_else" and len(e) == 4 and e[3][0] == "path":
                segs = self.path_segs(e[3])
                return "(EMatch %s [(PCon \"Some\" [PVar \"unwrap_v\"], EVar \"unwrap_v\"); (PCon \"None\" [], ECon %s [])])" % (
                    self.expr(e[1]), cs("::".join(segs)))
            if self.interior and name == "find" and len(e) == 4 and e[3][0] == "closure" and e[1][0] == "mcall" and \
                    S(e[1][2]) in ("into_iter", "iter") and len(e[1]) == 3:
                return self.array_find(e[1][1], e[3])
            if self.interior and name == "filter_map" and len(e) == 4 and e[3][0] == "closure" and e[3][2][0] != "block" and \
                    e[1][0] == "mcall" and S(e[1][2]) in ("into_iter", "iter") and len(e[1]) == 3 and len(e[3][1]) == 2 and e[3][1][1][0] == "pident":
                # `xs.iter().filter_map(|v| EXPR)`: the contents of the `Some` answers, in order
                v = S(e[3][1][1][1])
                self.hof_no = getattr(self, "hof_no", 0) + 1
                n = self.hof_no
                return ("(EBlock [SLet (PVar \"fmp_src%d\") %s; SLet (PVar \"fmp_acc%d\") (EArr []); "
                        "SExpr (EFor \"fmp_i%d\" (EConst (VNat 0)) (ECall \"len\" [EVar \"fmp_src%d\"]) "
                        "(EBlock [SLet (PVar %s) (EIndex (EVar \"fmp_src%d\") (EVar \"fmp_i%d\")); "
                        "STail (EIfLet (PCon \"Some\" [PVar \"fmp_x%d\"]) %s "
                        "(EAssign \"fmp_acc%d\" [] (ECall \"push\" [EVar \"fmp_acc%d\"; EVar \"fmp_x%d\"])) (EConst VUnit))])); "
                        "STail (EVar \"fmp_acc%d\")])" % (n, self.expr(e[1][1]), n, n, n, cs(v), n, n, n, self.expr(e[3][2]), n, n, n, n))
            if self.interior and name == "collect" and len(e) == 3 and e[1][0] == "mcall" and S(e[1][2]) == "filter_map" and \
                    len(e[1]) == 4 and e[1][3][0] == "closure" and getattr(self, "lift_closures", False):
                return self.filter_map_lifted(e[1][1], e[1][3])
            if self.interior and name == "collect" and len(e) == 3 and e[1][0] == "mcall" and S(e[1][2]) in ("copied", "cloned") and len(e[1]) == 3:
                return self.expr(["mcall", e[1][1], e[2]])      # `.copied()` / `.cloned()` of an iterator: the same elements
            if self.interior and name == "collect" and len(e) == 3 and e[1][0] == "mcall" and S(e[1][2]) == "skip" and len(e[1]) == 4:
                # `xs.skip(N).collect()`: the elements from position N on
                self.hof_no = getattr(self, "hof_no", 0) + 1
                n = self.hof_no
                return ("(EBlock [SLet (PVar \"sk_src%d\") %s; SLet (PVar \"sk_acc%d\") (EArr []); "
                        "SExpr (EFor \"sk_i%d\" %s (ECall \"len\" [EVar \"sk_src%d\"]) "
                        "(EBlock [STail (EAssign \"sk_acc%d\" [] (ECall \"push\" [EVar \"sk_acc%d\"; EIndex (EVar \"sk_src%d\") (EVar \"sk_i%d\")]))])); "
                        "STail (EVar \"sk_acc%d\")])" % (n, self.expr(e[1][1]), n, n, self.expr(e[1][3]), n, n, n, n, n, n))
            if self.interior and name == "collect" and len(e) == 3 and e[1][0] == "path" and len(e[1]) == 2:
                return self.expr(e[1])             # an iterator held in a variable, collected: the same elements
            if self.interior and name == "for_each" and len(e) == 4 and e[3][0] == "closure" and e[1][0] == "mcall" and S(e[1][2]) == "zip" and \
                    len(e[3][1]) == 2 and e[3][1][1][0] == "ptuple" and len(e[3][1][1]) == 3:
                # `a.iter().zip(b.iter()).for_each(|(x, y)| BODY)`: BODY for the pairs at equal positions, as far as both reach
                self.hof_no = getattr(self, "hof_no", 0) + 1
                n = self.hof_no
                return ("(EBlock [SLet (PVar \"zip_a%d\") %s; SLet (PVar \"zip_b%d\") %s; "
                        "SExpr (EFor \"zip_i%d\" (EConst (VNat 0)) (ECall \"min\" [ECall \"len\" [EVar \"zip_a%d\"]; ECall \"len\" [EVar \"zip_b%d\"]]) "
                        "(EBlock [SLet %s (EIndex (EVar \"zip_a%d\") (EVar \"zip_i%d\")); SLet %s (EIndex (EVar \"zip_b%d\") (EVar \"zip_i%d\")); "
                        "SExpr %s]))])" % (n, self.expr(e[1][1]), n, self.expr(e[1][3]), n, n, n,
                                           self.pat(e[3][1][1][1]), n, n, self.pat(e[3][1][1][2]), n, n, self.expr(e[3][2])))
            if self.interior and name == "contains" and len(e) == 4:
                return "(ECall \"contains\" [%s; %s])" % (self.expr(e[1]), self.expr(e[3]))
            if self.interior and name == "all" and len(e) == 4 and e[3][0] == "closure" and e[1][0] == "mcall" and \
                    S(e[1][2]) in ("into_iter", "iter") and len(e[1]) == 3:
                return self.array_all(e[1][1], e[3])
            if self.interior and name == "unwrap_or_default" and getattr(self, "unwrap_default_vec", False) and len(e) == 3:
                # of an Option<Vec<_>>: the vector, or the empty one
                return "(EMatch %s [(PCon \"Some\" [PVar \"unwrap_v\"], EVar \"unwrap_v\"); (PCon \"None\" [], EArr [])])" % self.expr(e[1])
            if self.interior and name == "find_map" and len(e) == 4 and e[3][0] == "closure" and e[1][0] == "mcall" and \
                    S(e[1][2]) in ("into_iter", "iter") and len(e[1]) == 3:
                return self.array_find_map(e[1][1], e[3])
            if self.interior and name == "any" and len(e) == 4 and e[3][0] == "closure" and e[1][0] == "mcall" and \
                    S(e[1][2]) in ("into_iter", "iter") and len(e[1]) == 3:
                return self.array_any(e[1][1], e[3])
            if self.interior and name == "unwrap_or_else" and len(e) == 4 and e[3][0] == "closure" and len(e[3][1]) == 1:
                return "(EMatch %s [(PCon \"Some\" [PVar \"unwrap_v\"], EVar \"unwrap_v\"); (PCon \"None\" [], %s)])" % (
                    self.expr(e[1]), self.expr(e[3][2]))
            if self.interior and name in ("is_some", "is_none") and len(e) == 3:
                return "(ECall %s [%s])" % (cs(name), self.expr(e[1]))
            if name in ("map", "map_err") and self.interior and len(e) == 4 and e[3][0] in ("path", "closure") and \
                    not (name == "map_err" and e[3][0] == "path" and len(e[3]) == 2):
                return self.hof_map(e[1], e[3], name == "map_err")
            if name in ("as_slice", "as_ref", "as_str", "iter", "into_iter") and self.interior and len(e) == 3:
                return "(ECall \"into\" [%s])" % self.expr(e[1])      # a view of the same value
            if name == "into" and self.interior:
                # a conversion into another type (StdError into the contract's error type): kept visible
                return "(ECon \"Into::into\" [%s])" % self.expr(e[1])
            if name in ("to_owned", "clone"):
                name = "into"                      # value-preserving conversions
            if name in ("borrow", "borrow_mut") and self.interior:
                name = "into"                      # RefCell: interior mutability is transparent (the state lives in the callee)
            mt = re.fullmatch(r"(is|downcast)<(\w+)>", name)
            if mt and self.interior:
                # anyhow::Error::{is, downcast}::<T>(): the type written in the source becomes a string argument
                return "(ECall %s [%s; EConst (VStr %s)])" % (cs("anyhow::" + mt.group(1)), self.expr(e[1]), cs(mt.group(2)))
            if name == "map_err" and self.interior and len(e) == 4 and e[3][0] == "path" and len(e[3]) == 2:
                # Result::map_err with a named function: the definition of map_err, inlined
                f = S(e[3][1])
                self.calls.add(f)
                return ("(EMatch %s [(PCon \"Ok\" [PVar \"map_err_v\"], ECon \"Ok\" [EVar \"map_err_v\"]); "
                        "(PCon \"Err\" [PVar \"map_err_e\"], ECon \"Err\" [ECall %s [EVar \"map_err_e\"]])])" % (self.expr(e[1]), cs(f)))
            if name in self.externals:
                # an operation of a foreign component (the chain): a call of a function the theorems quantify over
                q = "extern::" + name
                self.calls.add(q)
                return "(ECall %s %s)" % (cs(q), clist([self.expr(e[1])] + [self.expr(a) for a in e[3:]]))
            if name in getattr(self, "transparent_methods", ()) and len(e) == 3:
                return "(ECall \"into\" [%s])" % self.expr(e[1])
            if name == "to_string" and self.interior and e[1][0] == "quote":
                return "(ECon \"to_string\" [%s])" % self.expr(e[1])      # the text of a code template
            if name in self.builder_methods:
                return "(ECall %s %s)" % (cs(name), clist([self.expr(e[1])] + [self.expr(a) for a in e[3:]]))
            if name in self.own_methods:
                q = self.own_methods[name]
                self.calls.add(q)
                return "(ECall %s %s)" % (cs(q), clist([self.expr(e[1])] + [self.expr(a) for a in e[3:]]))
            if name == "unwrap" and self.interior:
                return "(ECall \"unwrap\" [%s])" % self.expr(e[1])
            if name == "count" and self.interior and len(e) == 3:
                return "(ECall \"len\" [%s])" % self.expr(e[1])     # the number of elements an iterator yields
            if name not in ("len", "is_empty", "into", "to_string", "unwrap_or_default_string"):
                raise TranslateError("unsupported method call .%s()" % name)
            return "(ECall %s %s)" % (cs(name), clist([self.expr(e[1])] + [self.expr(a) for a in e[3:]]))
        if h == "block":
            return self.block(e)
        if h == "if":
            els = self.block(e[3]) if len(e) > 3 else "(EConst VUnit)"
            if e[1][0] == "letcond":
                return "(EIfLet %s %s %s %s)" % (self.pat(e[1][1]), self.expr(e[1][2]), self.block(e[2]), els)
            return "(EIf %s %s %s)" % (self.expr(e[1]), self.block(e[2]), els)
        if h == "match":
            if self.interior and any(a[0] == "arm" and len(a) == 4 and a[2][0] == "guard" for a in e[2:]):
                return self.match_with_guards(e)
            arms, conditional = [], False
            for a in e[2:]:
                if a[0] == "armc" and len(a) == 4 and self.interior:
                    conditional = True
                    arms.append((cfg_feature_list(S(a[1])), "(%s, %s)" % (self.pat(a[2]), self.block(a[3]))))
                elif a[0] == "arm" and len(a) == 3:
                    arms.append(([], "(%s, %s)" % (self.pat(a[1]), self.block(a[2]))))
                else:
                    raise TranslateError("unsupported match arm (guards are not modelled): %r" % (a,))
            if conditional:
                # arms under #[cfg(feature = ..)]: the program is a function of the enabled features
                self.uses_features = True
                return "(EMatch %s (cfg_arms enabled_features %s))" % (
                    self.expr(e[1]), clist(["(%s, %s)" % (clist([cs(x) for x in fs]), t) for fs, t in arms]))
            return "(EMatch %s %s)" % (self.expr(e[1]), clist([t for _, t in arms]))
        if h == "try" and self.interior and getattr(self, "closure_state", None) is not None:
            # `e?` on an Option inside a lifted closure: None ends the closure with None (and the captured state as it is)
            return ("(EMatch %s [(PCon \"Some\" [PVar \"try_v\"], EVar \"try_v\"); (PCon \"None\" [], EReturn %s)])" % (
                self.expr(e[1]), self.closure_wrap("(ECon \"None\" [])")))
        if h == "try" and self.interior:
            # `e?`: the definition of the operator (the error is converted with From::from and returned)
            return ("(EMatch %s [(PCon \"Ok\" [PVar \"try_v\"], EVar \"try_v\"); "
                    "(PCon \"Err\" [PVar \"try_e\"], EReturn (ECon \"Err\" [ECon \"From::from\" [EVar \"try_e\"]]))])" % self.try_operand(e[1]))
        if h == "diag" and self.interior and (getattr(self, "diag_local", False) or getattr(self, "diag_sink_var", None)):
            # ghost state: the message is appended to the local list `__diags`, which the function returns (see translate_fn)
            return "(EAssign \"__diags\" [] (ECall \"push\" [EVar \"__diags\"; EConst (VStr %s)]))" % cs(S(e[2]) if len(e) > 2 else "")
        if h == "diag" and self.interior and getattr(self, "diag_sink", None):
            # ghost state: the message is appended to the list `__diags` of the object being built (control flow goes on)
            x = self.diag_sink
            return "(EAssign %s [(LFld \"__diags\")] (ECall \"push\" [EField (EVar %s) \"__diags\"; EConst (VStr %s)]))" % (
                cs(x), cs(x), cs(S(e[2]) if len(e) > 2 else ""))
        if h == "diag" and self.interior:
            return "(EConst VUnit)"        # a diagnostic is recorded by proc-macro-error; control flow goes on
        if h == "forin" and self.interior:
            # `for PAT in XS { BODY }` over a collection: its elements in order
            self.hof_no = getattr(self, "hof_no", 0) + 1
            n = self.hof_no
            return ("(EBlock [SLet (PVar \"for_src%d\") %s; SExpr (EFor \"for_i%d\" (EConst (VNat 0)) (ECall \"len\" [EVar \"for_src%d\"]) "
                    "(EBlock [SLet %s (EIndex (EVar \"for_src%d\") (EVar \"for_i%d\")); SExpr %s]))])" % (
                        n, self.expr(e[2]), n, n, self.pat(e[1]), n, n, self.block(e[3])))
        if h == "quote" and self.interior:
            # a code template: a symbolic value made of its text and the values of the variables it splices
            text = S(e[1])
            holes = []
            for mh in re.finditer(r"#\s*(\w+)", text):
                if mh.group(1) not in holes:
                    holes.append(mh.group(1))
            return "(ECon \"quote\" [EConst (VStr %s); ERecord \"holes\" %s None])" % (
                cs(text), clist(["(%s, EVar %s)" % (cs(x), cs(x)) for x in holes]))
        if h == "format" and self.interior:
            return "(ECon \"format\" %s)" % clist(["(EConst (VStr %s))" % cs(S(e[1]))] + [self.expr(a) for a in e[2:]])
        if h == "while":
            return "(EWhile %s %s)" % (self.expr(e[1]), self.block(e[2]))
        if h == "forrange":
            return "(EFor %s %s %s %s)" % (cs(S(e[1])), self.expr(e[2]), self.expr(e[3]), self.block(e[4]))
        if h == "continue":
            return "EContinue"
        if h == "break":
            return "EBreak"
        if h == "return" and len(e) == 1 and getattr(self, "mut_self_state", False):
            return "(EReturn (EVar \"self\"))"       # a method translated by state passing: leaving it early answers the receiver as it is
        if h == "return" and getattr(self, "closure_state", None) is not None:
            return "(EReturn %s)" % self.closure_wrap(self.expr(e[1]) if len(e) > 1 else "(EConst VUnit)")
        if h == "return":
            return "(EReturn %s)" % (self.expr(e[1]) if len(e) > 1 else "(EConst VUnit)")
        if h == "macro":
            return "(EPanic %s %s)" % (cs(S(e[1])), cs(S(e[2])))
        if h == "repeat":
            return "(ERepeat %s %s)" % (self.expr(e[1]), self.expr(e[2]))
        if h == "array":
            return "(EArr %s)" % clist([self.expr(a) for a in e[1:]])
        if h == "struct":
            name = self.con_name(self.path_segs(e[1]))
            fields, rest = [], "None"
            if getattr(self, "ghost_diags_field", False) and self.path_segs(e[1]) == ["Self"]:
                fields.append("(\"__diags\", EVar \"__diags\")")      # the diagnostics emitted while building the object
            for f in e[2:]:
                if f[0] == "f":
                    fields.append("(%s, %s)" % (cs(S(f[1])), self.expr(f[2])))
                elif f[0] == "rest":
                    rest = "(Some %s)" % self.expr(f[1])
                else:
                    raise TranslateError("unsupported struct literal member %r" % (f,))
            return "(ERecord %s %s %s)" % (cs(name), clist(fields), rest)
        if h == "unsupported":
            raise TranslateError("construct outside the translated subset: %s" % S(e[1])[:160])
        raise TranslateError("unknown expression head %r" % (h,))

    def hof_map(self, recv, f, on_err):
        """`x.map(f)` / `x.map_err(f)` on a Result or an Option, by definition: f is a named function or a closure of one
        plain parameter"""
        self.hof_no = getattr(self, "hof_no", 0) + 1
        v = "hof_v%d" % self.hof_no
        if f[0] == "path":
            segs = self.path_segs(f)
            name = "::".join(segs)
            if name in ("Into::into", "From::from"):
                app = "ECon \"Into::into\" [EVar %s]" % cs(v)
            elif name in ("str::to_owned", "String::from", "ToOwned::to_owned"):
                app = "EVar %s" % cs(v)
            else:
                if segs[-1] in self.externals:
                    name = "extern::" + segs[-1]
                self.calls.add(name)
                app = "ECall %s [EVar %s]" % (cs(name), cs(v))
        else:
            if len(f[1]) != 2 or f[1][1][0] not in ("pident", "pwild"):
                raise TranslateError("closure with other than one plain parameter")
            pv = "PWild" if f[1][1][0] == "pwild" else "PVar %s" % cs(S(f[1][1][1]))
            app = "EBlock [SLet (%s) (EVar %s); STail %s]" % (pv, cs(v), self.expr(f[2]))
        keep = lambda c: "(PCon %s [PVar %s], ECon %s [EVar %s])" % (cs(c), cs(v), cs(c), cs(v))
        conv = lambda c: "(PCon %s [PVar %s], ECon %s [%s])" % (cs(c), cs(v), cs(c), app)
        none = "(PCon \"None\" [], ECon \"None\" [])"
        arms = [keep("Ok"), conv("Err")] if on_err else [conv("Ok"), keep("Err"), conv("Some"), none]
        return "(EMatch %s %s)" % (self.expr(recv), clist(arms))

    def match_with_guards(self, e):
        """`match s { p if g => a, rest.. }`: when p matches and g is false the remaining arms are tried - the scrutinee is
        bound once and matched again against the remaining arms"""
        self.hof_no = getattr(self, "hof_no", 0) + 1
        tmp = "match_s%d" % self.hof_no

        def arms_from(k):
            out = []
            for i in range(k, len(e)):
                a = e[i]
                if a[0] != "arm":
                    raise TranslateError("unsupported match arm: %r" % (a,))
                if len(a) == 4 and a[2][0] == "guard":
                    rest = "(EMatch (EVar %s) %s)" % (cs(tmp), clist(arms_from(i + 1)))
                    out.append("(%s, EIf %s %s %s)" % (self.pat(a[1]), self.expr(a[2][1]), self.block(a[3]), rest))
                elif len(a) == 3:
                    out.append("(%s, %s)" % (self.pat(a[1]), self.block(a[2])))
                else:
                    raise TranslateError("unsupported match arm: %r" % (a,))
            return out
        return "(EBlock [SLet (PVar %s) %s; STail (EMatch (EVar %s) %s)])" % (cs(tmp), self.expr(e[1]), cs(tmp), clist(arms_from(2)))

    def has_zip(self, e):
        while isinstance(e, list) and e and e[0] == "mcall":
            if S(e[2]) == "zip":
                return True
            e = e[1]
        return False

    def iter_pipeline(self, e):
        """`X.iter() [.map(f) | .zip(Y)]* [.collect()]` with at least one zip: the list of the pipeline's elements, computed by
        an index loop. `zip(lo..)` pairs the element with lo + index, `zip(ys)` with ys[index] (the shorter length
        bounds the loop); a stage function is a closure of one parameter (a name or a tuple of names) or a named function."""
        stages = []
        while e[0] == "mcall" and S(e[2]) in ("map", "zip", "collect", "clone"):
            nm = S(e[2])
            if nm == "collect" and len(e) == 3:
                pass
            elif nm in ("map", "zip") and len(e) == 4:
                stages.append((nm, e[3]))
            else:
                raise TranslateError("iterator stage outside the subset: .%s" % nm)
            e = e[1]
        if not (e[0] == "mcall" and S(e[2]) in ("iter", "into_iter") and len(e) == 3):
            raise TranslateError("iterator pipeline without .iter() source")
        src = e[1]
        stages.reverse()
        self.hof_no = getattr(self, "hof_no", 0) + 1
        n = self.hof_no
        lets = ["SLet (PVar \"it_src%d\") %s" % (n, self.expr(src))]
        length = "ECall \"len\" [EVar \"it_src%d\"]" % n
        elem = "EIndex (EVar \"it_src%d\") (EVar \"it_i%d\")" % (n, n)
        for k, (nm, arg) in enumerate(stages):
            if nm == "zip":
                if arg[0] == "range" and len(arg) == 2:
                    other = "EBin \"+\" %s (EVar \"it_i%d\")" % (self.expr(arg[1]), n)
                else:
                    y = arg
                    while y[0] == "mcall" and S(y[2]) in ("clone", "iter", "into_iter") and len(y) == 3:
                        y = y[1]
                    lets.append("SLet (PVar \"it_zip%d_%d\") %s" % (n, k, self.expr(y)))
                    length = "ECall \"min\" [%s; ECall \"len\" [EVar \"it_zip%d_%d\"]]" % (length, n, k)
                    other = "EIndex (EVar \"it_zip%d_%d\") (EVar \"it_i%d\")" % (n, k, n)
                elem = "ECon \"()\" [%s; %s]" % (elem, other)
            else:
                if arg[0] == "closure":
                    if len(arg[1]) != 2:
                        raise TranslateError("closure with other than one parameter")
                    elem = "EBlock [SLet %s (%s); STail %s]" % (self.pat(arg[1][1]), elem, self.expr(arg[2]))
                elif arg[0] == "path":
                    segs = self.path_segs(arg)
                    if segs[-1] in getattr(self, "symbolic_methods", ()):
                        elem = "ECon %s [%s]" % (cs("." + segs[-1]), elem)
                    else:
                        fname = "::".join(segs)
                        self.calls.add(fname)
                        elem = "ECall %s [%s]" % (cs(fname), elem)
                else:
                    raise TranslateError("iterator stage function outside the subset")
        lets.append("SLet (PVar \"it_acc%d\") (EArr [])" % n)
        loop = ("SExpr (EFor \"it_i%d\" (EConst (VNat 0)) (%s) (EBlock [STail (EAssign \"it_acc%d\" [] "
                "(ECall \"push\" [EVar \"it_acc%d\"; %s]))]))" % (n, length, n, n, elem))
        return "(EBlock %s)" % clist(lets + [loop, "STail (EVar \"it_acc%d\")" % n])

    def closure1(self, clo):
        if len(clo[1]) != 2 or clo[1][1][0] != "pident":
            raise TranslateError("closure with other than one plain parameter")
        return S(clo[1][1][1]), self.expr(clo[2])

    def array_map(self, src, clo):
        """`xs.into_iter().map(|v| BODY)`: the list of BODY for the elements in order (the closure is pure)"""
        if clo[0] == "path":
            # a named function applied to each element
            segs = self.path_segs(clo)
            v = "map_elem"
            if segs[-1] in getattr(self, "symbolic_methods", ()):
                body = "ECon %s [EVar \"map_elem\"]" % cs("." + segs[-1])
            else:
                fname = self.own_methods.get(segs[-1], "::".join(segs))
                self.calls.add(fname)
                body = "ECall %s [EVar \"map_elem\"]" % cs(fname)
        else:
            v, body = self.closure1(clo)
        self.hof_no = getattr(self, "hof_no", 0) + 1
        n = self.hof_no
        return ("(EBlock [SLet (PVar \"map_src%d\") %s; SLet (PVar \"map_acc%d\") (EArr []); "
                "SExpr (EFor \"map_i%d\" (EConst (VNat 0)) (ECall \"len\" [EVar \"map_src%d\"]) "
                "(EBlock [SLet (PVar %s) (EIndex (EVar \"map_src%d\") (EVar \"map_i%d\")); "
                "STail (EAssign \"map_acc%d\" [] (ECall \"push\" [EVar \"map_acc%d\"; %s]))])); STail (EVar \"map_acc%d\")])"
                % (n, self.expr(src), n, n, n, cs(v), n, n, n, n, body, n))

    def array_filter(self, src, clo):
        """`xs.into_iter().filter(|v| COND)`: the elements satisfying COND, in order"""
        v, cond = self.closure1(clo)
        self.hof_no = getattr(self, "hof_no", 0) + 1
        n = self.hof_no
        return ("(EBlock [SLet (PVar \"flt_src%d\") %s; SLet (PVar \"flt_acc%d\") (EArr []); "
                "SExpr (EFor \"flt_i%d\" (EConst (VNat 0)) (ECall \"len\" [EVar \"flt_src%d\"]) "
                "(EBlock [SLet (PVar %s) (EIndex (EVar \"flt_src%d\") (EVar \"flt_i%d\")); "
                "STail (EIf %s (EAssign \"flt_acc%d\" [] (ECall \"push\" [EVar \"flt_acc%d\"; EVar %s])) (EConst VUnit))])); "
                "STail (EVar \"flt_acc%d\")])" % (n, self.expr(src), n, n, n, cs(v), n, n, cond, n, n, cs(v), n))

    def array_find_map(self, src, clo):
        """`xs.iter().find_map(|v| BODY)`: the first Some that BODY answers, else None (BODY is not evaluated after it)"""
        if len(clo[1]) != 2 or clo[1][1][0] != "pident":
            raise TranslateError("closure with other than one plain parameter")
        v = S(clo[1][1][1])
        self.hof_no = getattr(self, "hof_no", 0) + 1
        n = self.hof_no
        body = self.expr(clo[2])
        return ("(EBlock [SLet (PVar \"fm_src%d\") %s; SLet (PVar \"fm_res%d\") (ECon \"None\" []); "
                "SExpr (EFor \"fm_i%d\" (EConst (VNat 0)) (ECall \"len\" [EVar \"fm_src%d\"]) "
                "(EBlock [STail (EIfLet (PCon \"None\" []) (EVar \"fm_res%d\") "
                "(EBlock [SLet (PVar %s) (EIndex (EVar \"fm_src%d\") (EVar \"fm_i%d\")); "
                "STail (EAssign \"fm_res%d\" [] %s)]) (EConst VUnit))])); "
                "STail (EVar \"fm_res%d\")])" % (n, self.expr(src), n, n, n, n, cs(v), n, n, n, body, n))

    def closure_wrap(self, text):
        """the result of a lifted closure: its value together with the captured variables it may have updated"""
        return "(ECon \"()\" %s)" % clist([text] + ["(EVar %s)" % cs(x) for x in self.closure_state])

    def filter_map_lifted(self, src, clo):
        """`xs.filter_map(|v| { .. }).collect()` with a closure that uses `?` / `return` and may hand a captured local on as
        `&mut`: the closure becomes a function of its own (parameter, captured variables; result: its value and the captured
        variables it updates); the loop keeps the `Some` results in order and carries the updated variables along"""
        if len(clo[1]) != 2 or clo[1][1][0] != "pident":
            raise TranslateError("closure with other than one plain parameter")
        v = S(clo[1][1][1])
        body = clo[2]
        names, muts, local = [], [], {v}

        def walk(x):
            if isinstance(x, list) and x:
                if x[0] == "path" and len(x) == 2 and S(x[1]) not in names:
                    names.append(S(x[1]))
                if x[0] == "refmut" and x[1][0] == "path" and len(x[1]) == 2 and S(x[1][1]) not in muts:
                    muts.append(S(x[1][1]))
                if x[0] == "pident":
                    local.add(S(x[1]))
                for y in x[1:]:
                    walk(y)
        walk(body)
        for n_ in names:
            if n_ in getattr(self, "mut_params_state", ()) and n_ not in muts:
                muts.append(n_)                 # the function's own `&mut` parameter used inside the closure
        lo = "(EConst (VNat 0))"
        if src[0] == "mcall" and S(src[2]) == "skip" and len(src) == 4 and src[3][0] == "int":
            lo, src = "(EConst (VNat %d))" % int(src[3][1]), src[1]        # `.skip(N)`: the loop starts at element N
        captured = [n for n in names if n not in local and n in self.scope_names and not n[:1].isupper()]
        for m_ in muts:
            if m_ not in captured:
                raise TranslateError("closure borrows %s mutably, which is not a captured local" % m_)
        self.hof_no = getattr(self, "hof_no", 0) + 1
        n = self.hof_no
        fname = "%s::closure%d" % (self.fn_qualified, n)
        sub = FnTranslator(self.self_type, self.struct_fields)
        for k_, val in self.__dict__.items():
            if k_ not in ("calls", "closure_state", "hof_no"):
                setattr(sub, k_, val)
        sub.calls = set()
        sub.closure_state = list(muts)
        sub.hof_no = 100 * n
        btext = sub.block(body)
        # the value of the body is its tail expression: wrapped like every `return`
        btext = "(EBlock [SLet (PVar \"clo_res\") %s; STail %s])" % (btext, sub.closure_wrap("(EVar \"clo_res\")"))
        self.calls |= sub.calls
        self.aux_fns.append("{| fn_name := %s; fn_params := %s; fn_consts := [];\n     fn_body := %s |}" % (
            cs(fname), clist([cs(v)] + [cs(c) for c in captured]), btext))
        self.calls.add(fname)
        pat = "(PCon \"()\" %s)" % clist(["PVar \"fmc_r%d\"" % n] + ["PVar %s" % cs("fmc_st_" + m_) for m_ in muts])
        upd = "; ".join("SExpr (EAssign %s [] (EVar %s))" % (cs(m_), cs("fmc_st_" + m_)) for m_ in muts)
        return ("(EBlock [SLet (PVar \"fmc_src%d\") %s; SLet (PVar \"fmc_acc%d\") (EArr []); "
                "SExpr (EFor \"fmc_i%d\" LOWER (ECall \"len\" [EVar \"fmc_src%d\"]) "
                "(EBlock [SLet %s (ECall %s %s); %s"
                "STail (EIfLet (PCon \"Some\" [PVar \"fmc_x%d\"]) (EVar \"fmc_r%d\") "
                "(EAssign \"fmc_acc%d\" [] (ECall \"push\" [EVar \"fmc_acc%d\"; EVar \"fmc_x%d\"])) (EConst VUnit))])); "
                "STail (EVar \"fmc_acc%d\")])" % (
                    n, self.expr(src), n, n, n, pat, cs(fname),
                    clist(["(EIndex (EVar \"fmc_src%d\") (EVar \"fmc_i%d\"))" % (n, n)] + ["(EVar %s)" % cs(c) for c in captured]),
                    (upd + "; ") if upd else "", n, n, n, n, n, n)).replace("LOWER", lo)

    def array_all(self, src, clo):
        """`xs.into_iter().all(|v| COND)`: whether every element satisfies COND (COND has no effects)"""
        v, cond = self.closure1(clo)
        self.hof_no = getattr(self, "hof_no", 0) + 1
        n = self.hof_no
        return ("(EBlock [SLet (PVar \"all_src%d\") %s; SLet (PVar \"all_res%d\") (EConst (VBool true)); "
                "SExpr (EFor \"all_i%d\" (EConst (VNat 0)) (ECall \"len\" [EVar \"all_src%d\"]) "
                "(EBlock [SLet (PVar %s) (EIndex (EVar \"all_src%d\") (EVar \"all_i%d\")); "
                "STail (EIf %s (EConst VUnit) (EAssign \"all_res%d\" [] (EConst (VBool false))))])); "
                "STail (EVar \"all_res%d\")])" % (n, self.expr(src), n, n, n, cs(v), n, n, cond, n, n))

    def array_any(self, src, clo):
        """`xs.iter().any(|v| COND)`: whether some element satisfies COND (COND has no effects: evaluating it on the elements
        after the first hit, which `any` skips, changes nothing)"""
        v, cond = self.closure1(clo)
        self.hof_no = getattr(self, "hof_no", 0) + 1
        n = self.hof_no
        return ("(EBlock [SLet (PVar \"any_src%d\") %s; SLet (PVar \"any_res%d\") (EConst (VBool false)); "
                "SExpr (EFor \"any_i%d\" (EConst (VNat 0)) (ECall \"len\" [EVar \"any_src%d\"]) "
                "(EBlock [SLet (PVar %s) (EIndex (EVar \"any_src%d\") (EVar \"any_i%d\")); "
                "STail (EIf %s (EAssign \"any_res%d\" [] (EConst (VBool true))) (EConst VUnit))])); "
                "STail (EVar \"any_res%d\")])" % (n, self.expr(src), n, n, n, cs(v), n, n, cond, n, n))

    def array_find(self, src, clo):
        """`xs.iter().find(|v| COND)`: Some of the first element satisfying COND, else None"""
        v, cond = self.closure1(clo)
        self.hof_no = getattr(self, "hof_no", 0) + 1
        n = self.hof_no
        return ("(EBlock [SLet (PVar \"find_src%d\") %s; SLet (PVar \"find_res%d\") (ECon \"None\" []); "
                "SExpr (EFor \"find_i%d\" (EConst (VNat 0)) (ECall \"len\" [EVar \"find_src%d\"]) "
                "(EBlock [STail (EIfLet (PCon \"None\" []) (EVar \"find_res%d\") "
                "(EBlock [SLet (PVar %s) (EIndex (EVar \"find_src%d\") (EVar \"find_i%d\")); "
                "STail (EIf %s (EAssign \"find_res%d\" [] (ECon \"Some\" [EVar %s])) (EConst VUnit))]) (EConst VUnit))])); "
                "STail (EVar \"find_res%d\")])" % (n, self.expr(src), n, n, n, n, cs(v), n, n, cond, n, cs(v), n))

    def try_operand(self, e):
        """operand of `?`; the idiom `xs.into_iter().map(|v| BODY).collect::<StdResult<_>>()` is given its meaning: BODY is
        applied to the elements in order until the first Err, which is the result; otherwise Ok of the list of results"""
        if (e[0] == "mcall" and S(e[2]).replace(" ", "") in ("collect<StdResult<_>>", "collect<Result<_,_>>") and len(e) == 3
                and e[1][0] == "mcall" and S(e[1][2]) == "map" and len(e[1]) == 4 and e[1][3][0] == "closure"
                and e[1][1][0] == "mcall" and S(e[1][1][2]) == "into_iter" and len(e[1][1]) == 3):
            clo = e[1][3]
            if len(clo[1]) != 2 or clo[1][1][0] != "pident":
                raise TranslateError("closure with other than one plain parameter")
            v, body, src = S(clo[1][1][1]), self.expr(clo[2]), self.expr(e[1][1][1])
            return ("(EBlock [SLet (PVar \"collect_src\") %s; SLet (PVar \"collect_acc\") (EArr []); "
                    "SLet (PVar \"collect_res\") (ECon \"Ok\" [EConst VUnit]); "
                    "SExpr (EFor \"collect_i\" (EConst (VNat 0)) (ECall \"len\" [EVar \"collect_src\"]) "
                    "(EBlock [STail (EIfLet (PCon \"Ok\" [PWild]) (EVar \"collect_res\") "
                    "(EBlock [SLet (PVar %s) (EIndex (EVar \"collect_src\") (EVar \"collect_i\")); "
                    "STail (EMatch %s [(PCon \"Ok\" [PVar \"collect_v\"], EAssign \"collect_acc\" [] (ECall \"push\" [EVar \"collect_acc\"; EVar \"collect_v\"])); "
                    "(PCon \"Err\" [PVar \"collect_e\"], EAssign \"collect_res\" [] (ECon \"Err\" [EVar \"collect_e\"]))])]) "
                    "(EConst VUnit))])); "
                    "STail (EMatch (EVar \"collect_res\") [(PCon \"Ok\" [PWild], ECon \"Ok\" [EVar \"collect_acc\"]); "
                    "(PCon \"Err\" [PVar \"collect_e\"], ECon \"Err\" [EVar \"collect_e\"])])])" % (src, cs(v), body))
        return self.expr(e)

    def unwrap_default_name(self, recv):
        """`x.unwrap_or_default()`: only on a field of self whose declared type is Option<String>"""
        if recv[0] == "field" and recv[1][0] == "path" and self.path_segs(recv[1]) == ["self"]:
            ty = self.struct_fields.get(S(recv[2]), "")
            if "".join(ty.split()) == "Option<String>":
                return "unwrap_or_default_string"
        raise TranslateError("unwrap_or_default on a value whose type is not a declared Option<String> field")


# functions of other crates with a fixed meaning: a constructor of the value they build, or a value-preserving conversion
FOREIGN = {"StdError::generic_err": "StdError::GenericErr", "Addr::unchecked": "into", "RefCell::new": "into",
           "Response::new": "call:Response::new", "PhantomData::default": "PhantomData", "Into::into": "Into::into",
           # serialising a generated message type does not fail: the JSON of the value, as a success
           "to_json_binary": "ok:to_json_binary",
           # a parser of another crate: an operation the theorems quantify over
           "parse_instantiate_response_data": "call:extern::parse_instantiate_response_data"}
CRATE_PREFIXES = {"sylvia", "cw_std", "multitest", "cw_utils", "cw_multi_test", "std", "core", "marker", "crate"}


def cfg_feature_list(text):
    """`cfg (feature = "a")`, `cfg (all (feature = "a" , feature = "b"))`, several joined by && -> the features required"""
    t = "".join(text.split())
    feats = []
    for part in t.split("&&"):
        m = re.fullmatch(r'cfg\((?:all\()?((?:feature="[\w-]+",?)+)\)?\)', part)
        if not m:
            raise TranslateError("condition of a match arm outside the subset (only feature = .. and all(..)): %s" % text)
        feats += re.findall(r'feature="([\w-]+)"', m.group(1))
    return feats


LAST_AUX_FNS = []      # functions lifted from closures by the last translate_fn calls (the caller collects and clears them)


def translate_fn(sx, self_type=None, struct_fields=None, qualified=None, setup=None):
    """(fn "name" (consts ..) (params (p name type)..) (cfg "..") body) -> (coq fn_def text, callee set)"""
    if sx[0] != "fn":
        raise TranslateError("not a fn: %r" % (sx[0],))
    name = S(sx[1])
    consts = [S(c) for c in sx[2][1:]]
    t = FnTranslator(self_type, struct_fields)
    if setup:
        setup(t)
    params, prelude = [], []
    for i, p in enumerate(sx[3][1:]):
        if p[0] == "pp":            # a destructuring parameter pattern: bound from a fresh parameter
            params.append(("arg%d" % i, S(p[2])))
            prelude.append("SLet %s (EVar %s)" % (t.pat(p[1]), cs("arg%d" % i)))
        else:
            params.append((S(p[1]), S(p[2])))
    body = sx[5]
    t.param_types = dict(params)
    t.fn_qualified = qualified or name
    t.scope_names = {pn for pn, _ in params}

    def collect_lets(x):
        if isinstance(x, list) and x:
            if x[0] == "pident":
                t.scope_names.add(S(x[1]))
            for y in x[1:]:
                collect_lets(y)
    collect_lets(body)
    for pn, pt in params:
        if pt == "&mut self" and getattr(t, "stateless_self", False) and not t.struct_fields:
            continue                # `&mut self` of a type without fields: there is nothing to mutate
        if pt == "&mut self" and getattr(t, "mut_self_state", False):
            continue                # state passing: the method returns the updated `self` (see below)
        if pn in getattr(t, "mut_params_state", ()) and "&mut" in pt.replace(" ", ""):
            continue                # state passing: the function returns (its value, the updated parameter) (see below)
        if "&mut" in pt.replace(" ", "") or pt == "&mut self":
            raise TranslateError("fn %s: parameter %s is a mutable reference (aliasing is not modelled)" % (name, pn))
        if pn.startswith("?"):
            raise TranslateError("fn %s: parameter pattern %s" % (name, pn))
    cbind = []
    for c in consts:
        owner = None
        for pn, pt in params:
            if re.search(r";\s*%s\s*\]\s*$" % re.escape(c), pt):
                owner = pn
                break
        if owner is None:
            raise TranslateError("fn %s: const generic %s is not the length of a parameter array" % (name, c))
        cbind.append("(%s, %s)" % (cs(c), cs(owner)))
    mps0 = [pn for pn, pt in params if pn in getattr(t, "mut_params_state", ()) and "&mut" in pt.replace(" ", "")]
    if mps0:
        t.closure_state = list(mps0)       # `?` (on an Option) and `return` carry the updated parameters along
    btext = t.block(body)
    if getattr(t, "mut_self_state", False) and dict(params).get("self") == "&mut self":
        # a method that updates its receiver and returns nothing: the updated receiver is the result
        if "EReturn" in btext.replace("(EReturn (EVar \"self\"))", ""):
            raise TranslateError("fn %s: `return` of a value inside a method translated by state passing" % name)
        btext = "(EBlock [SExpr %s; STail (EVar \"self\")])" % btext
    mps = [pn for pn, pt in params if pn in getattr(t, "mut_params_state", ()) and "&mut" in pt.replace(" ", "")]
    if mps:
        btext = "(EBlock [SLet (PVar \"fn_res\") %s; STail (ECon \"()\" %s)])" % (
            btext, clist(["(EVar \"fn_res\")"] + ["(EVar %s)" % cs(x) for x in mps]))
    if getattr(t, "diag_sink_var", None):
        btext = "(EBlock [SLet (PVar \"__diags\") (EArr []); STail %s])" % btext
    if getattr(t, "diag_local", False):
        # a checking function that returns nothing: its diagnostics, in order, are the result
        if "EReturn" in btext:
            raise TranslateError("fn %s: `return` inside a function translated with a local diagnostics list" % name)
        btext = "(EBlock [SLet (PVar \"__diags\") (EArr []); SExpr %s; STail (EVar \"__diags\")])" % btext
    if prelude:
        btext = "(EBlock %s)" % clist(prelude + ["STail %s" % btext])
    text = "{| fn_name := %s; fn_params := %s; fn_consts := %s;\n     fn_body := %s |}" % (
        cs(qualified or name), clist([cs(p[0]) for p in params]), clist(cbind), btext)
    if t.aux_fns:
        LAST_AUX_FNS.extend(t.aux_fns)
    return text, t.calls - {a.split('"')[1] for a in t.aux_fns}


def fetch_ast(path):
    res = common.probe_run([("a", "ast", "", path)], shards=1, tag="ast")
    kv = res.get("a", [])
    status = [v for k, v in kv if k == "status"]
    if status != ["ast_done"]:
        raise TranslateError("%s: %s" % (path, status))
    return kv


BUILTINS = {"len", "is_empty", "konst::cmp_str", "konst::eq_str", "into", "to_string", "unwrap_or_default_string", "Binary::default",
            "anyhow::is", "anyhow::downcast", "unwrap", "push", "Response::new", "add_submessages", "add_events", "add_attributes", "into_option", "is_some", "is_none", "min", "set_data", "contains"}


def translate_utils():
    """sylvia/src/utils.rs: the five const fns of the overlap check."""
    kv = fetch_ast(os.path.join(common.REPO, "sylvia", "src", "utils.rs"))
    wanted = ["assert_no_intersection", "init_states", "get_next_alphabetical_index", "verify_no_collissions", "should_end"]
    fns, calls = {}, {}
    for k, v in kv:
        if k == "fn":
            sx = parse_sx(v)
            name = S(sx[1])
            if name in wanted:
                if S(sx[4][1]):
                    raise TranslateError("utils.rs: fn %s is cfg-gated (%s)" % (name, S(sx[4][1])))
                fns[name], calls[name] = translate_fn(sx)
    enums = {v.split(" @@ ")[0]: v.split(" @@ ")[1].split() for k, v in kv if k == "enum"}
    missing = [w for w in wanted if w not in fns]
    if missing:
        raise TranslateError("utils.rs: functions not found: %s" % missing)
    if sorted(enums.get("State", [])) != sorted(["Ongoing/1", "Finished/1", "Empty/0"]):
        raise TranslateError("utils.rs: enum State has changed shape: %s" % enums.get("State"))
    for f, cl in calls.items():
        for c in cl:
            if c not in BUILTINS and c not in fns:
                raise TranslateError("utils.rs: fn %s calls %s, which is not translated" % (f, c))
            if c in fns and calls[c] - BUILTINS:
                raise TranslateError("utils.rs: call nesting deeper than two levels (%s -> %s -> ..)" % (f, c))
    return [fns[w] for w in wanted]


def translate_builder():
    """sylvia/src/builder/instantiate.rs: the methods of InstantiateBuilder."""
    kv = fetch_ast(os.path.join(common.REPO, "sylvia", "src", "builder", "instantiate.rs"))
    structs = {}
    for k, v in kv:
        if k == "struct":
            nm, _, fs = v.partition(" @@ ")
            structs[nm] = dict((f.split(":", 1)[0], f.split(":", 1)[1]) for f in fs.split(" ;; ") if ":" in f)
    if "InstantiateBuilder" not in structs:
        raise TranslateError("builder/instantiate.rs: struct InstantiateBuilder not found")
    out, names = [], []
    for k, v in kv:
        if k == "method":
            ty, _, sxs = v.partition(" @@ ")
            if ty.strip() != "InstantiateBuilder":
                continue
            sx = parse_sx(sxs)
            name = S(sx[1])
            text, cl = translate_fn(sx, "InstantiateBuilder", structs["InstantiateBuilder"], "InstantiateBuilder::" + name)
            if cl - BUILTINS:
                raise TranslateError("InstantiateBuilder::%s calls %s" % (name, cl - BUILTINS))
            out.append(text)
            names.append(name)
    for w in ("new", "with_label", "with_admin", "with_funds", "build", "build2"):
        if w not in names:
            raise TranslateError("builder/instantiate.rs: method %s not found" % w)
    fields = list(structs["InstantiateBuilder"].keys())
    return out, fields


def translate_methods(relpath, wanted, setup=None, extra_known=(), kv=None):
    """methods of impl blocks of a file: wanted = {impl name: [method names]} -> list of fn_def texts (qualified names)"""
    if kv is None:
        kv = fetch_ast(os.path.join(common.REPO, "sylvia", "src", *relpath.split("/")))
    structs = {}
    for k, v in kv:
        if k == "struct":
            nm, _, fs = v.partition(" @@ ")
            structs[nm] = dict((f.split(":", 1)[0], f.split(":", 1)[1]) for f in fs.split(" ;; ") if ":" in f)
    out, found = [], set()
    known = {"%s::%s" % (i, m) for i, ms in wanted.items() for m in ms}
    for k, v in kv:
        if k != "method":
            continue
        key, _, sxs = v.partition(" @@ ")
        iname = impl_name(key)
        if iname not in wanted:
            continue
        sx = parse_sx(sxs)
        name = S(sx[1])
        if name not in wanted[iname]:
            continue
        q = "%s::%s" % (iname, name)
        if q in found:
            raise TranslateError("%s: %s is defined more than once" % (relpath, q))
        base = iname.partition("[")[0]
        text, cl = translate_fn(sx, iname, structs.get(base, {}), q, setup=setup)
        bad = cl - BUILTINS - known - set(extra_known)
        if bad:
            raise TranslateError("%s: %s calls %s, which is not translated" % (relpath, q, sorted(bad)))
        out.append(text)
        found.add(q)
    missing = sorted(known - found)
    if missing:
        raise TranslateError("%s: methods not found: %s" % (relpath, missing))
    return out


MT_WANTED = {"App": ["new", "app_mut"], "Proxy": ["new"],
             "ExecProxy": ["new", "with_funds", "call"], "MigrateProxy": ["new", "call"]}
MT_EXTERNALS = {"execute_contract", "migrate_contract"}


def translate_multitest():
    """sylvia/src/multitest.rs: the proxies that send a message to the chain, and downcast_error. The chain's own
    operations (execute_contract, migrate_contract of cw-multi-test) are calls of `extern::..` functions."""
    path = os.path.join(common.REPO, "sylvia", "src", "multitest.rs")
    kv = fetch_ast(path)

    def setup(t):
        t.interior = True
        t.externals = set(MT_EXTERNALS)
        t.own_methods = {"app_mut": "App::app_mut"}
    out = translate_methods("multitest.rs", MT_WANTED, setup=setup, extra_known={"downcast_error"} | {"extern::" + x for x in MT_EXTERNALS}, kv=kv)
    for k, v in kv:
        if k == "fn":
            sx = parse_sx(v)
            if S(sx[1]) == "downcast_error":
                if S(sx[4][1]):
                    raise TranslateError("multitest.rs: downcast_error is cfg-gated")
                text, cl = translate_fn(sx, setup=setup)
                bad = cl - BUILTINS - {"anyhow::is", "anyhow::downcast", "unwrap"}
                if bad:
                    raise TranslateError("multitest.rs: downcast_error calls %s" % sorted(bad))
                return out + [text]
    raise TranslateError("multitest.rs: fn downcast_error not found")


MTGEN_WANTED = {"InstantiateProxy": ["with_funds", "with_label", "with_admin", "with_salt", "call"], "CodeId": ["instantiate"]}


def translate_mtgen():
    """The GENERATED instantiate proxy (contract/mt.rs templates emit_instantiate_proxy, emit_instantiate2_body, emit_code_id),
    for every contract: the templates are turned into source text (tmpl_translate: type-level holes erased, the nested
    template spliced) and their function bodies translated like the run-time library. The chain's operations
    (instantiate_contract, execute) and cw_utils::parse_instantiate_response_data are `extern::..` calls."""
    from . import tmpl_translate, translate
    _, templates, _ = translate.fetch_tables()
    path = tmpl_translate.instantiate_proxy_source(templates)
    kv = fetch_ast(path)

    def setup(t):
        t.interior = True
        t.externals = {"instantiate_contract", "execute"}
        t.own_methods = {"app_mut": "App::app_mut"}
    return translate_methods(path, MTGEN_WANTED, setup=setup, kv=kv,
                             extra_known={"downcast_error", "App::app_mut", "into_option", "extern::instantiate_contract", "extern::execute",
                                          "extern::parse_instantiate_response_data"})


def translate_mtmethods(side="contract"):
    """The four kinds of GENERATED proxy method (contract/mt.rs emit_mt_method_definition), for every contract and method:
    the message constructor `Api::<Kind>::<method>(args)` is the constructor value `<Kind>Msg::of [args]`; the chain's
    query_wasm_smart / wasm_sudo are `extern::..` calls; ExecProxy::new / MigrateProxy::new / App::app_mut are the
    translated run-time library."""
    from . import tmpl_translate, translate
    _, templates, _ = translate.fetch_tables()
    path = tmpl_translate.proxy_methods_source(templates, side)
    kv = fetch_ast(path)

    def setup(t):
        t.interior = True
        t.externals = {"query_wasm_smart", "wasm_sudo"}
        t.own_methods = {"app_mut": "App::app_mut"}
        t.builder_methods = set()
        t.transparent_methods = {"querier"}          # App::querier(): the querier of the chain inside the wrapper
    FOREIGN.update({"ApiT::KindMsg::exec_method": "ExecMsg::of", "ApiT::KindMsg::query_method": "QueryMsg::of",
                    "ApiT::KindMsg::sudo_method": "SudoMsg::of", "ApiT::KindMsg::new": "MigrateMsg::new"})
    wanted = {"ProxyT": ["exec_method", "query_method", "sudo_method", "migrate_method"]}
    return translate_methods(path, wanted, setup=setup, kv=kv,
                             extra_known={"downcast_error", "App::app_mut", "ExecProxy::new", "MigrateProxy::new",
                                          "extern::query_wasm_smart", "extern::wasm_sudo"})


def translate_macro_logic():
    """Decision logic of the MACRO itself (sylvia-derive): `EntryPoints::emit` - which entry points a contract gets - and
    `get_entry_point` (the look-up of an override). Templates (`quote!`) are symbolic values (their text and the values
    they splice); building the message variants of the source and emitting one default entry point are `extern::..`."""
    def setup(t):
        t.interior = True
        t.externals = {"as_variants", "get_only_variant", "emit_default_entry_point",
                       "emit_result_type", "emit_ctx_params", "emit_ctx_values", "emit_ep_name", "as_accessor_wrapper_name"}
        t.own_methods = {"get_entry_point": "get_entry_point"}
    FOREIGN.update({"MsgVariants::new": "call:extern::MsgVariants::new", "crate_module": "call:extern::crate_module"})
    out = []
    kv = fetch_ast(os.path.join(common.REPO, "sylvia-derive", "src", "entry_points.rs"))
    out += translate_methods("entry_points.rs", {"EntryPoints": ["emit", "emit_default_entry_point"]}, setup=setup, kv=kv,
                             extra_known={"get_entry_point", "extern::MsgVariants::new", "extern::as_variants", "extern::get_only_variant",
                                          "extern::emit_default_entry_point", "is_some", "is_none", "push", "is_empty", "extern::crate_module",
                                          "extern::emit_result_type", "extern::emit_ctx_params", "extern::emit_ctx_values",
                                          "extern::emit_ep_name", "extern::as_accessor_wrapper_name"})
    kv2 = fetch_ast(os.path.join(common.REPO, "sylvia-derive", "src", "parser", "attributes", "override_entry_point.rs"))
    found = None
    for k, v in kv2:
        if k == "method" and v.startswith("&Vec<OverrideEntryPoint> as FilteredOverrideEntryPoints @@ "):
            sx = parse_sx(v.partition(" @@ ")[2])
            if S(sx[1]) == "get_entry_point":
                found, cl = translate_fn(sx, "FilteredOverrideEntryPoints", {}, "get_entry_point", setup=setup)
                bad = cl - BUILTINS - {"push"}
                if bad:
                    raise TranslateError("get_entry_point calls %s" % sorted(bad))
    if not found:
        raise TranslateError("override_entry_point.rs: get_entry_point of &Vec<OverrideEntryPoint> not found")
    return out + [found]


def translate_dispatch_leg():
    """`MsgVariant::emit_dispatch_leg` (types/msg_variant.rs) and `MsgType::emit_dispatch_leg` (types/msg_type.rs): the match arm
    of a message variant - which names its fields are bound to and in which order they are passed to the handler."""
    def setup(t):
        t.interior = True
        t.symbolic_methods = {"name", "span"}
        t.accessor_methods = {"msg_type"}
        t.own_methods = {"emit_dispatch_leg": "MsgType::emit_dispatch_leg"}
    FOREIGN.update({"Ident::new": "Ident::new", "crate_module": "call:extern::crate_module"})
    kv = fetch_ast(os.path.join(common.REPO, "sylvia-derive", "src", "types", "msg_variant.rs"))
    known = {"MsgType::emit_dispatch_leg", "push", "min", "extern::crate_module"}
    out = translate_methods("types/msg_variant.rs", {"MsgVariant": ["emit_dispatch_leg"]}, setup=setup, kv=kv, extra_known=known)
    kv2 = fetch_ast(os.path.join(common.REPO, "sylvia-derive", "src", "types", "msg_type.rs"))
    out += translate_methods("types/msg_type.rs", {"MsgType": ["emit_dispatch_leg"]}, setup=setup, kv=kv2, extra_known=known)

    # the collection of variants: one arm, one published name, one constructor, one enum variant per variant
    def setup_vs(t):
        t.interior = True
        t.symbolic_methods = {"emit_variants_constructors", "emit"}
        t.own_methods = {"emit_dispatch_leg": "MsgVariant::emit_dispatch_leg"}
    FOREIGN.update({"serde_snake_case": "serde_snake_case"})
    out += translate_methods("types/msg_variant.rs", {"MsgVariants": ["emit_dispatch_legs", "as_names_snake_cased", "emit_constructors", "emit"]},
                             setup=setup_vs, kv=kv, extra_known=known | {"MsgVariant::emit_dispatch_leg"})
    return out


def translate_bridge_logic():
    """`Interfaces::emit_dispatch_arms` (types/interfaces.rs) and `MsgType::emit_ctx_dispatch_values` (types/msg_type.rs): which
    arms of the contract-level dispatch convert the response (IntoResponse) and the context (into_empty)."""
    def setup(t):
        t.interior = True
        t.symbolic_methods = {"emit_msg_wrapper_name", "emit_ctx_dispatch_values", "as_accessor_name", "emit_ep_name", "span"}
    FOREIGN.update({"crate_module": "call:extern::crate_module", "Ident::new": "Ident::new"})
    kv = fetch_ast(os.path.join(common.REPO, "sylvia-derive", "src", "types", "interfaces.rs"))
    known = {"push", "extern::crate_module"}
    out = translate_methods("types/interfaces.rs", {"Interfaces": ["emit_dispatch_arms", "emit_glue_message_variants", "emit_glue_message_types",
                                                                   "emit_messages_call", "emit_deserialization_attempts",
                                                                   "emit_response_schemas_calls"]},
                            setup=setup, kv=kv, extra_known=known)

    def setup2(t):
        t.interior = True
    kv2 = fetch_ast(os.path.join(common.REPO, "sylvia-derive", "src", "types", "msg_type.rs"))
    out += translate_methods("types/msg_type.rs", {"MsgType": ["emit_ctx_dispatch_values"]}, setup=setup2, kv=kv2, extra_known=known)

    # the contract-level message itself: GlueMessage::emit puts the per-interface pieces and the contract's own together
    def setup3(t):
        t.interior = True
        t.symbolic_methods = {"emit_msg_wrapper_name", "as_accessor_name", "emit_ep_name", "span", "fold_type", "emit_ctx_type",
                              "emit_result_type", "query_or_default", "msg_or_default", "variants_modules", "variants_names"}
        t.own_methods = {n: "Interfaces::" + n for n in ("emit_glue_message_variants", "emit_glue_message_types", "emit_messages_call",
                                                         "emit_dispatch_arms", "emit_deserialization_attempts", "emit_response_schemas_calls")}
    FOREIGN.update({"emit_bracketed_generics": "emit_bracketed_generics"})
    kv3 = fetch_ast(os.path.join(common.REPO, "sylvia-derive", "src", "contract", "communication", "wrapper_msg.rs"))
    known3 = known | {"Interfaces::" + n for n in ("emit_glue_message_variants", "emit_glue_message_types", "emit_messages_call",
                                                   "emit_dispatch_arms", "emit_deserialization_attempts", "emit_response_schemas_calls")}
    out += translate_methods("contract/communication/wrapper_msg.rs", {"GlueMessage": ["emit"]}, setup=setup3, kv=kv3, extra_known=known3)
    return out


def translate_msg_new():
    """`EnumMessage::new` of the contract side and of the interface side: which `sv::msg_attr` lines a message type of a kind
    gets (the filter on the kind)."""
    def setup(t):
        t.interior = True
        t.symbolic_methods = {"as_variants"}
        t.externals = {"emit_contract_custom_type_accessor"}       # answers an Option: a stub the theorem quantifies over
        t.symbolic_consts = {"EXEC_TYPE", "QUERY_TYPE"}
    FOREIGN.update({"MsgVariants::new": "MsgVariants::new", "ParsedSylviaAttributes::new": "call:extern::ParsedSylviaAttributes::new"})
    known = {"push", "extern::ParsedSylviaAttributes::new", "extern::emit_contract_custom_type_accessor"}
    out = []
    for rel, tag in (("contract/communication/enum_msg.rs", "contract"), ("interface/communication/enum_msg.rs", "interface")):
        kv = fetch_ast(os.path.join(common.REPO, "sylvia-derive", "src", *rel.split("/")))
        fns = translate_methods(rel, {"EnumMessage": ["new"]}, setup=setup, kv=kv, extra_known=known)
        out += [f.replace('fn_name := "EnumMessage::new"', 'fn_name := "EnumMessage::new@%s"' % tag) for f in fns]

    def setup_struct(t):
        # `variants.variants()` / `.msg_ty()` read a component of the variants built by the stub; `next` / `function_name` only
        # feed the diagnostics (spans) and are answered by stubs
        t.interior = True
        t.symbolic_methods = {"as_variants"}
        t.accessor_methods = {"variants", "msg_ty"}
        t.externals = {"next", "function_name"}
    FOREIGN["MsgVariants::new"] = "call:extern::MsgVariants::new"
    rel = "contract/communication/struct_msg.rs"
    kv = fetch_ast(os.path.join(common.REPO, "sylvia-derive", "src", *rel.split("/")))
    out += translate_methods(rel, {"StructMessage": ["new"]}, setup=setup_struct, kv=kv,
                             extra_known=known | {"len", "extern::next", "extern::function_name", "extern::MsgVariants::new"})
    FOREIGN["MsgVariants::new"] = "call:extern::MsgVariants::new"
    return out


ATTR_PARSERS = ["Custom::new", "ContractErrorAttr::new", "ContractMessageAttr::new", "MsgAttr::new", "OverrideEntryPoint::new",
                "VariantAttrForwarding::new", "MsgAttrForwarding::new", "PayloadFieldParam::new", "DataFieldParams::new",
                "SylviaFeatures::new"]


def translate_attr_parser():
    """sylvia-derive/src/parser/attributes/mod.rs: `SylviaAttribute::new` (which attributes are the framework's own) and
    `ParsedSylviaAttributes::new` with `match_attribute` (what is collected from the attributes of an item, in which order,
    which repetitions are refused). Diagnostics are appended to a ghost field `__diags` of the object being built."""
    rel = "parser/attributes/mod.rs"
    src_path = os.path.join(common.REPO, "sylvia-derive", "src", *rel.split("/"))
    kv = fetch_ast(src_path)
    # `Self::default()` is given the meaning of `#[derive(Default)]`: the struct must derive it and not implement it by hand
    text = open(src_path).read()
    md = re.search(r"#\[derive\(([^)]*)\)\]\s*(?:#\[[^\]]*\]\s*)*pub\s+struct\s+ParsedSylviaAttributes\b", text)
    if not md or "Default" not in [x.strip() for x in md.group(1).split(",")] or re.search(r"impl\s+Default\s+for\s+ParsedSylviaAttributes\b", text):
        raise TranslateError("%s: ParsedSylviaAttributes does not derive Default" % rel)

    def setup_sv(t):
        t.interior = True
        t.accessor_methods = {"path"}
    out = translate_methods(rel, {"SylviaAttribute": ["new", "match_attribute"]}, setup=setup_sv, kv=kv)

    def setup_new(t):
        t.interior = True
        t.derive_default = True
        t.diag_sink = "result"
        t.externals = {"require_list", "msg_type"}
        t.state_methods = {"match_attribute": "ParsedSylviaAttributes::match_attribute"}

    def setup_match(t):
        t.interior = True
        t.mut_self_state = True
        t.diag_sink = "self"
    for nm in ATTR_PARSERS:
        FOREIGN[nm] = "call:extern::" + nm
    FOREIGN["SylviaAttribute::new"] = "call:SylviaAttribute::new"
    FOREIGN["DataFieldParams::default"] = "DataFieldParams::default"
    known = {"extern::" + nm for nm in ATTR_PARSERS} | {"SylviaAttribute::new", "extern::require_list", "extern::msg_type",
                                                         "push", "is_none", "is_empty", "len"}
    out += translate_methods(rel, {"ParsedSylviaAttributes": ["new"]}, setup=setup_new, kv=kv,
                             extra_known=known | {"ParsedSylviaAttributes::match_attribute"})
    out += translate_methods(rel, {"ParsedSylviaAttributes": ["match_attribute"]}, setup=setup_match, kv=kv, extra_known=known)
    FOREIGN["SylviaAttribute::new"] = "call:extern::SylviaAttribute::new"
    return out


def translate_generics():
    """Which type parameters a message type carries and which bounds it keeps: `CheckGenerics` (parser/check_generics.rs) and
    `filter_wheres`, `as_where_clause`, `emit_bracketed_generics` (utils.rs). syn's own traversal (`visit_where_predicate`,
    `visit_path_segment`) and `GetPath::get_path` are operations the theorems quantify over."""
    def setup(t):
        t.interior = True
        t.mut_self_state = True
        t.unwrap_default_vec = True
        t.externals = {"get_path"}
        t.own_methods = {"used": "CheckGenerics::used"}
        t.state_methods = {"visit_where_predicate": "extern::visit_where_predicate", "visit_path_segment": "extern::visit_path_segment"}
    kv = fetch_ast(os.path.join(common.REPO, "sylvia-derive", "src", "parser", "check_generics.rs"))
    known = {"CheckGenerics::new", "CheckGenerics::used", "extern::visit_where_predicate", "extern::visit_path_segment", "extern::get_path",
             "contains", "push", "len", "is_empty"}
    out = translate_methods("parser/check_generics.rs", {"CheckGenerics": ["new", "used", "used_unused", "visit_path"]},
                            setup=setup, kv=kv, extra_known=known)
    kv = fetch_ast(os.path.join(common.REPO, "sylvia-derive", "src", "utils.rs"))
    wanted = ["filter_wheres", "as_where_clause", "emit_bracketed_generics"]
    got = {}
    for k, v in kv:
        if k == "fn":
            sx = parse_sx(v)
            if S(sx[1]) in wanted:
                text, cl = translate_fn(sx, setup=setup)
                bad = cl - BUILTINS - known
                if bad:
                    raise TranslateError("utils.rs: %s calls %s" % (S(sx[1]), sorted(bad)))
                got[S(sx[1])] = text
    missing = [w for w in wanted if w not in got]
    if missing:
        raise TranslateError("utils.rs: functions not found: %s" % missing)

    # MsgVariants::new (types/msg_variant.rs): the variants of one kind, and the generics / bounds of the message type
    def setup_mv(t):
        t.interior = True
        t.lift_closures = True
        t.accessor_methods = {"msg_type"}
        t.own_methods = {"used_unused": "CheckGenerics::used_unused", "attr_msg": "VariantDesc::attr_msg",
                         "attrs_to_forward": "VariantDesc::attrs_to_forward", "into_sig": "VariantDesc::into_sig"}
    FOREIGN["MsgVariant::new"] = "call:MsgVariant::new"
    del LAST_AUX_FNS[:]
    mv = translate_methods("types/msg_variant.rs", {"MsgVariants": ["new"]}, setup=setup_mv,
                           kv=fetch_ast(os.path.join(common.REPO, "sylvia-derive", "src", "types", "msg_variant.rs")),
                           extra_known=known | {"MsgVariant::new", "filter_wheres", "CheckGenerics::used_unused",
                                                "VariantDesc::attr_msg", "VariantDesc::attrs_to_forward", "VariantDesc::into_sig"})
    aux = list(LAST_AUX_FNS)
    del LAST_AUX_FNS[:]
    # MsgVariant::new: one variant (its `&mut CheckGenerics` parameter by state passing)
    def setup_v(t):
        t.interior = True
        t.mut_params_state = {"generics_checker"}
        t.accessor_methods = {"msg_type", "resp_type"}
        t.symbolic_methods = {"to_case"}
        t.externals = {"fold_path"}
        t.state_methods = {"visit_type": "extern::visit_type", "visit_path": "extern::visit_path"}
    FOREIGN["process_fields"] = "call:extern::process_fields"
    FOREIGN["extract_return_type"] = "extract_return_type"
    mv += translate_methods("types/msg_variant.rs", {"MsgVariant": ["new"]}, setup=setup_v,
                            kv=fetch_ast(os.path.join(common.REPO, "sylvia-derive", "src", "types", "msg_variant.rs")),
                            extra_known={"extern::process_fields", "extern::visit_type", "extern::visit_path", "extern::fold_path"})
    # the accessors of a method description (parser/variant_descs.rs)
    def setup_vd(t):
        t.interior = True
    vd = translate_methods("parser/variant_descs.rs", {"VariantDesc": ["into_sig", "attr_msg", "attrs_to_forward"]}, setup=setup_vd,
                           kv=fetch_ast(os.path.join(common.REPO, "sylvia-derive", "src", "parser", "variant_descs.rs")))
    return out + [got[w] for w in wanted] + mv + aux + vd


def translate_variant_descs():
    """parser/variant_descs.rs: `VariantDesc::new` (a method's description: its parsed attributes and its signature) and
    `as_variants` of an impl block / a trait (the descriptions of its methods, in order; other items are skipped)."""
    def setup(t):
        t.interior = True
    FOREIGN["Box::new"] = "into"
    FOREIGN["ParsedSylviaAttributes::new"] = "call:ParsedSylviaAttributes::new"
    kv = fetch_ast(os.path.join(common.REPO, "sylvia-derive", "src", "parser", "variant_descs.rs"))
    known = {"ParsedSylviaAttributes::new", "VariantDesc::new", "push", "len"}
    try:
        out = translate_methods("parser/variant_descs.rs", {"VariantDesc": ["new"]}, setup=setup, kv=kv, extra_known=known)
        for ty in ("ItemImpl", "ItemTrait"):
            fns = translate_methods("parser/variant_descs.rs", {ty: ["as_variants"]}, setup=setup, kv=kv, extra_known=known)
            out += fns
    finally:
        FOREIGN["ParsedSylviaAttributes::new"] = "call:extern::ParsedSylviaAttributes::new"
    return out


def translate_fields():
    """The fields of a message variant: `MsgField::new` / `emit` / `emit_pub` (types/msg_field.rs) and `process_fields`
    (parser/mod.rs: the parameters after `self` and the context, in order). The `&mut CheckGenerics` parameter by state
    passing; the closure of `filter_map` lifted into a function."""
    def setup(t):
        t.interior = True
        t.mut_params_state = {"generics_checker"}
        t.lift_closures = True
        t.externals = {"fold_type"}
        t.state_methods = {"visit_type": "extern::visit_type"}
    saved = dict(FOREIGN)
    FOREIGN["MsgField::new"] = "call:MsgField::new"
    FOREIGN["assert_no_self_ctx_attributes"] = "call:extern::assert_no_self_ctx_attributes"
    try:
        del LAST_AUX_FNS[:]
        known = {"extern::visit_type", "extern::fold_type", "extern::assert_no_self_ctx_attributes", "MsgField::new", "push", "len"}
        out = translate_methods("types/msg_field.rs", {"MsgField": ["new", "emit", "emit_pub"]}, setup=setup,
                                kv=fetch_ast(os.path.join(common.REPO, "sylvia-derive", "src", "types", "msg_field.rs")), extra_known=known)
        pf = None
        for k, v in fetch_ast(os.path.join(common.REPO, "sylvia-derive", "src", "parser", "mod.rs")):
            if k == "fn":
                sx = parse_sx(v)
                if S(sx[1]) == "process_fields":
                    pf, cl = translate_fn(sx, setup=setup)
                    bad = cl - BUILTINS - known
                    if bad:
                        raise TranslateError("process_fields calls %s" % sorted(bad))
        if pf is None:
            raise TranslateError("parser/mod.rs: fn process_fields not found")
        aux = list(LAST_AUX_FNS)
        del LAST_AUX_FNS[:]
        return out + [pf] + aux
    finally:
        FOREIGN.clear()
        FOREIGN.update(saved)


def translate_reply_data_logic():
    """contract/communication/reply.rs: `ReplyData::new` (what one handler contributes to its reply id) and `ReplyData::merge`
    (a second handler of the same id). `merge(&mut self, ..)` by state passing; diagnostics as ghost state (a field
    `__diags` of the object)."""
    rel = "contract/communication/reply.rs"
    path = os.path.join(common.REPO, "sylvia-derive", "src", *rel.split("/"))
    kv = fetch_ast(path)
    mc = re.search(r"const\s+NUMBER_OF_ALLOWED_DATA_FIELDS\s*:\s*usize\s*=\s*(\d+)\s*;", open(path).read())
    if not mc:
        raise TranslateError("%s: const NUMBER_OF_ALLOWED_DATA_FIELDS not found" % rel)
    consts = {"NUMBER_OF_ALLOWED_DATA_FIELDS": int(mc.group(1))}

    def common_setup(t):
        t.interior = True
        t.const_values = consts
        t.accessor_methods = {"fields", "msg_attr", "reply_on", "function_name", "ty"}
        t.externals = {"as_data_field", "validate_fields_attributes", "is_payload_marked"}

    def setup_new(t):
        common_setup(t)
        t.diag_local = False
        t.ghost_diags_field = True
        t.diag_sink_var = "__diags"

    def setup_merge(t):
        common_setup(t)
        t.mut_self_state = True
        t.diag_sink = "self"
    saved = dict(FOREIGN)
    FOREIGN["assert_no_redundant_params"] = "call:extern::assert_no_redundant_params"
    FOREIGN["ReplyData::new"] = "call:ReplyData::new"
    try:
        known = {"extern::as_data_field", "extern::validate_fields_attributes", "extern::is_payload_marked",
                 "extern::assert_no_redundant_params", "ReplyData::new", "push", "len", "min", "is_empty", "is_some", "is_none"}
        out = translate_methods(rel, {"ReplyData": ["new"]}, setup=setup_new, kv=kv, extra_known=known)
        out += translate_methods(rel, {"ReplyData": ["merge"]}, setup=setup_merge, kv=kv, extra_known=known)
        return out
    finally:
        FOREIGN.clear()
        FOREIGN.update(saved)


def translate_checks():
    """sylvia-derive/src/parser/mod.rs: `assert_new_method_defined` - the constructor `new` a contract needs. The function
    returns nothing; its diagnostics, in order, are the result of the translation."""
    def setup(t):
        t.interior = True
        t.diag_local = True
    kv = fetch_ast(os.path.join(common.REPO, "sylvia-derive", "src", "parser", "mod.rs"))
    for k, v in kv:
        if k == "fn":
            sx = parse_sx(v)
            if S(sx[1]) == "assert_new_method_defined":
                text, cl = translate_fn(sx, setup=setup)
                bad = cl - BUILTINS - {"is_empty", "len", "push"}
                if bad:
                    raise TranslateError("assert_new_method_defined calls %s" % sorted(bad))
                return [text]
    raise TranslateError("parser/mod.rs: fn assert_new_method_defined not found")


def translate_reply_on():
    """parser/attributes/msg.rs: `ReplyOn::new` (the three outcome names) and `ReplyOn::excludes` (when two handlers of one
    reply name cannot coexist)."""
    def setup(t):
        t.interior = True
        t.symbolic_methods = {"span"}
    FOREIGN["Error::new"] = "Error::new"
    return translate_methods("parser/attributes/msg.rs", {"ReplyOn": ["new", "excludes"]}, setup=setup,
                             kv=fetch_ast(os.path.join(common.REPO, "sylvia-derive", "src", "parser", "attributes", "msg.rs")))


def translate_fold():
    """sylvia-derive/src/fold.rs: `StripInput` - what is removed from the user's item before it is re-emitted."""
    def setup(t):
        t.interior = True
        t.stateless_self = True
    FOREIGN.update({"SylviaAttribute::new": "call:extern::SylviaAttribute::new",
                    "fold::fold_trait_item_fn": "fold::fold_trait_item_fn", "fold::fold_impl_item_fn": "fold::fold_impl_item_fn",
                    "fold::fold_item_trait": "fold::fold_item_trait", "fold::fold_item_impl": "fold::fold_item_impl"})
    kv = fetch_ast(os.path.join(common.REPO, "sylvia-derive", "src", "fold.rs"))
    known = {"extern::SylviaAttribute::new", "remove_input_attr", "push", "is_some", "is_none", "is_empty", "len"}
    out = translate_methods("fold.rs", {"StripInput": ["fold_trait_item_fn", "fold_impl_item_fn", "fold_item_trait", "fold_item_impl"]},
                            setup=setup, kv=kv, extra_known=known)
    rm = None
    for k, v in kv:
        if k == "fn":
            sx = parse_sx(v)
            if S(sx[1]) == "remove_input_attr":
                rm, cl = translate_fn(sx, setup=setup)
                bad = cl - BUILTINS - known
                if bad:
                    raise TranslateError("remove_input_attr calls %s" % sorted(bad))
    if rm is None:
        raise TranslateError("fold.rs: fn remove_input_attr not found")
    return out + [rm]


MT_LOGIC_EXTERNS = {"crate_module", "emit_bracketed_generics", "get_ident_from_type"}


def translate_mt_logic():
    """`MtHelpers::emit_impl_contract` and `emit_default_dispatch` (sylvia-derive/src/contract/mt.rs): which body each of the
    six operations of the generated `impl cw_multi_test::Contract` gets."""
    def setup(t):
        t.interior = True
        t.externals = {"emit_multitest_dispatch", "get_only_variant", "function_name", "msg_or_default", "query_or_default",
                       "emit_ctx_values", "as_accessor_wrapper_name"}
        t.own_methods = {"get_entry_point": "get_entry_point"}
    for x in MT_LOGIC_EXTERNS:
        FOREIGN[x] = "call:extern::" + x
    kv = fetch_ast(os.path.join(common.REPO, "sylvia-derive", "src", "contract", "mt.rs"))
    known = {"get_entry_point", "emit_default_dispatch", "is_some", "is_none", "is_empty"} | {"extern::" + x for x in MT_LOGIC_EXTERNS} | \
        {"extern::" + x for x in ("emit_multitest_dispatch", "get_only_variant", "function_name", "msg_or_default", "query_or_default",
                                  "emit_ctx_values", "as_accessor_wrapper_name")}
    out = translate_methods("contract/mt.rs", {"MtHelpers": ["emit_impl_contract"]}, setup=setup, kv=kv, extra_known=known)
    dd = None
    for k, v in kv:
        if k == "fn":
            sx = parse_sx(v)
            if S(sx[1]) == "emit_default_dispatch":
                dd, cl = translate_fn(sx, setup=setup)
                bad = cl - BUILTINS - known
                if bad:
                    raise TranslateError("emit_default_dispatch calls %s" % sorted(bad))
    if dd is None:
        raise TranslateError("contract/mt.rs: fn emit_default_dispatch not found")
    return out + [dd]


def translate_reply_data():
    """The GENERATED extraction of the reply data for each of the six data modes (templates of reply.rs). cw_utils' envelope
    parsers and cosmwasm_std::from_json are `extern::..` calls the theorems quantify over."""
    from . import tmpl_translate, translate
    _, templates, _ = translate.fetch_tables()
    path = tmpl_translate.reply_data_source(templates)
    kv = fetch_ast(path)

    def setup(t):
        t.interior = True
    FOREIGN.update({"parse_execute_response_data": "call:extern::parse_execute_response_data", "from_json": "call:extern::from_json"})
    return translate_methods(path, {"DataT": [m for m, _ in tmpl_translate.DATA_MODES]}, setup=setup, kv=kv,
                             extra_known={"extern::parse_execute_response_data", "extern::parse_instantiate_response_data", "extern::from_json"})


def translate_reply_arms():
    """The GENERATED reply dispatch of one reply id in its four shapes (templates of reply.rs): which handler is called with what,
    and what a pass-through arm answers. The handlers and from_json are `extern::..` calls."""
    from . import tmpl_translate, translate
    _, templates, _ = translate.fetch_tables()
    path = tmpl_translate.reply_arms_source(templates)
    kv = fetch_ast(path)

    def setup(t):
        t.interior = True
        t.externals = {"success_handler", "error_handler", "always_handler"}
        t.builder_methods = {"add_events", "set_data"}
    FOREIGN.update({"from_json": "call:extern::from_json", "ContractT::new": "ContractT::new"})
    return translate_methods(path, {"ArmsT": [c[0] for c in tmpl_translate.ARM_COMBOS]}, setup=setup, kv=kv,
                             extra_known={"extern::success_handler", "extern::error_handler", "extern::always_handler", "extern::from_json",
                                          "Response::new", "add_events", "set_data", "is_some", "unwrap"})


def translate_reply_builders():
    """The GENERATED sub-message builders of reply handlers (templates of contract/communication/reply.rs), for every contract,
    handler, trigger and id."""
    from . import tmpl_translate, translate
    _, templates, _ = translate.fetch_tables()
    path = tmpl_translate.reply_builders_source(templates)
    kv = fetch_ast(path)

    def setup(t):
        t.interior = True
    return translate_methods(path, {"BuilderT": ["setter_typed", "setter_raw", "converter_typed", "converter_raw"]}, setup=setup, kv=kv)


RESP_WANTED = {"SubMsg": ["into_msg"], "Response": ["into_response"]}


def translate_response():
    """sylvia/src/into_response.rs: IntoMsg for SubMsg<Empty>, IntoResponse for Response<Empty>. The arms under
    #[cfg(feature = ..)] make the program a function of the enabled features."""
    def setup(t):
        t.interior = True
        t.own_methods = {"into_msg": "SubMsg::into_msg"}
        t.builder_methods = {"add_submessages", "add_events", "add_attributes"}
    return translate_methods("into_response.rs", RESP_WANTED, setup=setup,
                             extra_known={"push", "Response::new", "add_submessages", "add_events", "add_attributes"})


TYPES_WANTED = {"ExecutorBuilder[Empty]": ["new"], "ExecutorBuilder": ["with_funds", "funds", "contract"],
                "ExecutorBuilder[Ready]": ["new", "build"],
                "Remote": ["new", "borrowed", "executor", "update_admin", "clear_admin", "querier", "as_ref"],
                "BoundQuerier": ["querier", "contract", "borrowed", "from"]}
CTX_WANTED = {c: ["from"] for c in ("MigrateCtx", "ReplyCtx", "ExecCtx", "InstantiateCtx", "QueryCtx", "SudoCtx")}


def generate():
    """Returns (coq text, [errors]). A part whose translation fails is emitted as the empty program (so that nothing
    stale is ever proved about or run), and the failure is returned for the report."""
    errors = []
    try:
        utils = translate_utils()
    except TranslateError as e:
        utils, _ = [], errors.append("sylvia/src/utils.rs: %s" % e)
    try:
        builder, bfields = translate_builder()
    except TranslateError as e:
        (builder, bfields), _ = ([], []), errors.append("sylvia/src/builder/instantiate.rs: %s" % e)

    try:
        types = translate_methods("types.rs", TYPES_WANTED)
    except TranslateError as e:
        types, _ = [], errors.append("sylvia/src/types.rs: %s" % e)
    try:
        ctxs = translate_methods("ctx.rs", CTX_WANTED)
    except TranslateError as e:
        ctxs, _ = [], errors.append("sylvia/src/ctx.rs: %s" % e)

    try:
        mt = translate_multitest()
    except TranslateError as e:
        mt, _ = [], errors.append("sylvia/src/multitest.rs: %s" % e)

    try:
        resp = translate_response()
    except TranslateError as e:
        resp, _ = [], errors.append("sylvia/src/into_response.rs: %s" % e)

    try:
        mtgen = translate_mtgen()
    except Exception as e:          # TranslateError of either translator
        if type(e).__name__ != "TranslateError":
            raise
        mtgen, _ = [], errors.append("generated instantiate proxy (contract/mt.rs templates): %s" % e)

    try:
        mtmeth = translate_mtmethods()
    except Exception as e:
        if type(e).__name__ != "TranslateError":
            raise
        mtmeth, _ = [], errors.append("generated proxy methods (contract/mt.rs templates): %s" % e)

    try:
        rbuild = translate_reply_builders()
    except Exception as e:
        if type(e).__name__ != "TranslateError":
            raise
        rbuild, _ = [], errors.append("generated reply builders (contract/communication/reply.rs templates): %s" % e)
    try:
        rarms = translate_reply_arms()
    except Exception as e:
        if type(e).__name__ != "TranslateError":
            raise
        rarms, _ = [], errors.append("generated reply dispatch arms (contract/communication/reply.rs templates): %s" % e)
    try:
        rdata = translate_reply_data()
    except Exception as e:
        if type(e).__name__ != "TranslateError":
            raise
        rdata, _ = [], errors.append("generated reply data extraction (contract/communication/reply.rs templates): %s" % e)
    try:
        mtmeth_i = translate_mtmethods("interface")
    except Exception as e:
        if type(e).__name__ != "TranslateError":
            raise
        mtmeth_i, _ = [], errors.append("generated interface proxy methods (interface/mt.rs templates): %s" % e)
    try:
        macro = translate_macro_logic()
    except (TranslateError, KeyError, IndexError, ValueError, TypeError, AttributeError) as e:
        macro, _ = [], errors.append("macro logic (entry_points.rs, override_entry_point.rs): %s" % e)

    try:
        mtlogic = translate_mt_logic()
    except (TranslateError, KeyError, IndexError, ValueError, TypeError, AttributeError) as e:
        mtlogic, _ = [], errors.append("macro logic (contract/mt.rs emit_impl_contract): %s" % e)

    try:
        legs = translate_dispatch_leg()
    except (TranslateError, KeyError, IndexError, ValueError, TypeError, AttributeError) as e:
        legs, _ = [], errors.append("macro logic (dispatch legs: msg_variant.rs, msg_type.rs): %s" % e)

    try:
        msgnew = translate_msg_new()
    except (TranslateError, KeyError, IndexError, ValueError, TypeError, AttributeError) as e:
        msgnew, _ = [], errors.append("macro logic (message constructors: */communication/enum_msg.rs, struct_msg.rs): %s" % e)
    try:
        parsefns = translate_attr_parser()
    except (TranslateError, KeyError, IndexError, ValueError, TypeError, AttributeError) as e:
        parsefns, _ = [], errors.append("macro logic (attribute parser: parser/attributes/mod.rs): %s" % e)
    try:
        checkfns = translate_checks() + translate_reply_on()
    except (TranslateError, KeyError, IndexError, ValueError, TypeError, AttributeError) as e:
        checkfns, _ = [], errors.append("macro logic (checks: parser/mod.rs): %s" % e)
    try:
        genericsfns = translate_generics()
    except (TranslateError, KeyError, IndexError, ValueError, TypeError, AttributeError) as e:
        genericsfns, _ = [], errors.append("macro logic (generics: parser/check_generics.rs, utils.rs): %s" % e)
    try:
        vdescfns = translate_variant_descs()
    except (TranslateError, KeyError, IndexError, ValueError, TypeError, AttributeError) as e:
        vdescfns, _ = [], errors.append("macro logic (method descriptions: parser/variant_descs.rs): %s" % e)
    try:
        fieldfns = translate_fields()
    except (TranslateError, KeyError, IndexError, ValueError, TypeError, AttributeError) as e:
        fieldfns, _ = [], errors.append("macro logic (fields: types/msg_field.rs, parser/mod.rs process_fields): %s" % e)
    try:
        replydatafns = translate_reply_data_logic()
    except (TranslateError, KeyError, IndexError, ValueError, TypeError, AttributeError) as e:
        replydatafns, _ = [], errors.append("macro logic (reply table: contract/communication/reply.rs ReplyData): %s" % e)
    try:
        foldfns = translate_fold()
    except (TranslateError, KeyError, IndexError, ValueError, TypeError, AttributeError) as e:
        foldfns, _ = [], errors.append("macro logic (fold.rs StripInput): %s" % e)
    try:
        bridge = translate_bridge_logic()
    except (TranslateError, KeyError, IndexError, ValueError, TypeError, AttributeError) as e:
        bridge, _ = [], errors.append("macro logic (bridged arms: interfaces.rs, msg_type.rs): %s" % e)

    def prog(fns):
        return "  [ " + ";\n    ".join(fns) + " ]." if fns else "  []."
    text = "\n".join([
        "(* GENERATED on every run by py/verif/imp_translate.py from /repo/sylvia/src/utils.rs and",
        "   /repo/sylvia/src/builder/instantiate.rs, types.rs, ctx.rs (syn dump of the probe). Do not edit. *)",
        "From Coq Require Import String List.", "Require Import SV.Model.Imp.", "Import ListNotations.",
        "Open Scope string_scope.", ""] +
        ["(* NOT TRANSLATED: %s *)" % e.replace("*)", "* )") for e in errors] + [
        "Definition utils_program : program :=", prog(utils), "",
        "Definition builder_program : program :=", prog(builder), "",
        "Definition builder_fields : list string := " + clist([cs(f) for f in bfields]) + ".", "",
        "(* sylvia/src/types.rs: ExecutorBuilder (both type states) and the helpers of Remote *)",
        "Definition types_program : program :=", prog(types), "",
        "(* sylvia/src/ctx.rs: the conversions of the entry-point argument tuples into the handler contexts *)",
        "Definition ctx_program : program :=", prog(ctxs), "",
        "(* sylvia/src/multitest.rs: the proxies that send execute / migrate messages to the chain, and downcast_error *)",
        "Definition mt_program : program :=", prog(mt), "",
        "(* GENERATED code, for every contract: the instantiate proxy of the multitest helpers (templates of contract/mt.rs) *)",
        "Definition mtgen_fns : program :=", prog(mtgen), "",
        "(* GENERATED code, for every contract and method: the exec / query / sudo / migrate proxy methods (one symbolic argument) *)",
        "Definition mtmeth_fns : program :=", prog(mtmeth), "",
        "(* ... and the same four templates of the INTERFACE side (interface/mt.rs) *)",
        "Definition mtmeth_iface_fns : program :=", prog(mtmeth_i), "",


        "(* GENERATED code, for every contract / handler / trigger / id: the sub-message builders of reply handlers *)",
        "Definition reply_builder_fns : program :=", prog(rbuild), "",
        "(* GENERATED code: the dispatch of one reply id, in the four shapes the macro produces *)",
        "Definition reply_arm_fns : program :=", prog(rarms), "",
        "(* GENERATED code: the extraction of the reply data, one function per declared data mode *)",
        "Definition reply_data_fns : program :=", prog(rdata), "",
        "(* sylvia/src/into_response.rs: IntoMsg / IntoResponse; `enabled_features` = the cargo features switched on *)",
        "Definition resp_program (enabled_features : list string) : program :=", prog(resp), ""])
    global LAST_MACRO_TEXT, LAST_EXTRA_TEXTS
    merr = [e for e in errors if e.startswith("macro logic")]

    def gen_file(what, defs):
        return "\n".join([
            "(* GENERATED on every run by py/verif/imp_translate.py from /repo/sylvia-derive/src: %s. Do not edit." % what,
            "   (A file of its own so that a change elsewhere does not re-check the theorems about this part.) *)",
            "From Coq Require Import String List.", "Require Import SV.Model.Imp.", "Import ListNotations.",
            "Open Scope string_scope.", ""] +
            ["(* NOT TRANSLATED: %s *)" % e.replace("*)", "* )") for e in merr] + defs + [""])
    LAST_MACRO_TEXT = gen_file("the macro's own decision logic (entry_points.rs, override_entry_point.rs, contract/mt.rs)", [
        "(* EntryPoints::emit (which entry points exist), emit_default_entry_point and get_entry_point *)",
        "Definition macro_fns : program :=", prog(macro), "",
        "(* which body each operation of the generated `impl cw_multi_test::Contract` gets (contract/mt.rs) *)",
        "Definition mtlogic_fns : program :=", prog(mtlogic)])
    LAST_EXTRA_TEXTS = {
        "GenImpLeg.v": gen_file("the match arm of a message variant (types/msg_variant.rs, types/msg_type.rs)", [
            "Definition leg_fns : program :=", prog(legs)]),
        "GenImpAttr.v": gen_file("the constructors of the message types (contract/communication/enum_msg.rs, struct_msg.rs, "
                                 "interface/communication/enum_msg.rs)", [
            "(* EnumMessage::new of the contract side and of the interface side, StructMessage::new: the forwarded msg_attr lines of a kind *)",
            "Definition msgnew_fns : program :=", prog(msgnew)]),
        "GenImpFold.v": gen_file("what is removed from the user's item before it is re-emitted (fold.rs)", [
            "(* StripInput: fold_trait_item_fn, fold_impl_item_fn, fold_item_trait, fold_item_impl, remove_input_attr *)",
            "Definition fold_fns : program :=", prog(foldfns)]),
        "GenImpParse.v": gen_file("the parser of the framework's attributes (parser/attributes/mod.rs)", [
            "(* SylviaAttribute::new / match_attribute, ParsedSylviaAttributes::new / match_attribute (state passing; diagnostics",
            "   appended to the ghost field __diags) *)",
            "Definition attrparse_fns : program :=", prog(parsefns)]),
        "GenImpCheck.v": gen_file("checks of the contract macro (parser/mod.rs)", [
            "(* assert_new_method_defined (its diagnostics, in order, are the result); ReplyOn::new, ReplyOn::excludes (parser/attributes/msg.rs) *)",
            "Definition check_fns : program :=", prog(checkfns)]),
        "GenImpGenerics.v": gen_file("which type parameters and bounds a message type carries (parser/check_generics.rs, utils.rs)", [
            "(* CheckGenerics::{new, used, used_unused, visit_path}, filter_wheres, as_where_clause, emit_bracketed_generics *)",
            "Definition generics_fns : program :=", prog(genericsfns)]),
        "GenImpVariants.v": gen_file("the descriptions of the methods of an impl block / a trait (parser/variant_descs.rs)", [
            "(* VariantDesc::new, ItemImpl::as_variants, ItemTrait::as_variants *)",
            "Definition variants_fns : program :=", prog(vdescfns)]),
        "GenImpFields.v": gen_file("the fields of a message variant (types/msg_field.rs, parser/mod.rs process_fields)", [
            "(* MsgField::new / emit / emit_pub, process_fields and the closure of its filter_map *)",
            "Definition field_fns : program :=", prog(fieldfns)]),
        "GenImpReplyData.v": gen_file("what a handler contributes to its reply id (contract/communication/reply.rs: ReplyData)", [
            "(* ReplyData::new, ReplyData::merge (state passing; diagnostics in the ghost field __diags) *)",
            "Definition replydata_fns : program :=", prog(replydatafns)]),
        "GenImpBridge.v": gen_file("the contract-level message (types/interfaces.rs, types/msg_type.rs, contract/communication/wrapper_msg.rs)", [
            "(* Interfaces::emit_*, MsgType::emit_ctx_dispatch_values, GlueMessage::emit *)",
            "Definition bridge_fns : program :=", prog(bridge)])}
    return text, errors


LAST_MACRO_TEXT = None
LAST_EXTRA_TEXTS = {}


def write(text):
    """GenImp.v and (from the same generate() call) GenImpMacro.v; a file is rewritten only when its text changes"""
    out = None
    for name, t in [("GenImp.v", text), ("GenImpMacro.v", LAST_MACRO_TEXT)] + sorted(LAST_EXTRA_TEXTS.items()):
        if t is None:
            continue
        path = os.path.join(COQ, "theories", "Model", name)
        old = open(path).read() if os.path.exists(path) else None
        if old != t:
            with open(path, "w") as f:
                f.write(t)
        out = out or path
    return out
