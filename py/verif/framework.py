"""Run object: collects proof / translator / correspondence / oracle results, decides, reports."""
import json
import os
import subprocess
import sys
import time
import traceback

from . import common
from .common import VERIF, COQ, log

TRUSTED_BASE_COMMON = [
    "Coq 8.16.1 kernel (coqc, full .vo build; vm_compute used, native_compute not used)",
    "no Axiom/Parameter/Admitted in the development (grep gate on every run); Print Assumptions of every property theorem must be 'Closed under the global context'",
    "translator: harness/probe/probe.rs (syn-based extraction of match arms and quote! templates) + py/verif/translate.py (rendering to GenTables.v)",
    "second translator (C02/C05/C10 strengthening tie): probe.rs `ast` dump + py/verif/imp_translate.py -> GenImp.v (utils.rs, builder/instantiate.rs, types.rs builders, ctx.rs as terms of Model/Imp.v); the Imp semantics as a description of Rust for that subset (usize as nat, shared references transparent, value-preserving conversions as identity) is validated by the L3 differential run",
    "correspondence harnesses: L1 in-process expansion probe, L2 compiled corpus, L3 libdiff (+ featdiff under a witnessing feature set); Python generators, renderers and oracles",
    "modelled not verified: serde/serde_derive/serde-json-wasm/serde-cw-value decoding rules, convert_case, konst, cw-utils, cw-multi-test, schemars, rustc",
]


class Run:
    def __init__(self, pid, tier, seed):
        self.pid = pid
        self.tier = tier
        self.seed = seed
        self.t0 = time.time()
        self.theorems = []          # (module, name, ok, assumptions)
        self.obligations = 0
        self.discharged = 0
        self.proof_errors = []      # text
        self.translator_errors = []
        self.disagreements = []     # dicts {observable, case, model, impl}
        self.oracle_failures = []   # dicts {what, case, class?}
        self.known_hits = []        # (finding, case)
        self.evaluations = 0
        self.nontrivial = set()
        self.samples = []
        self.distribution = {}
        self.notes = []
        self.rule = ""
        self.exhaustive = None
        self.extra_cov = {}
        self.programs = 0
        self.checker_cmd = "make -C coq (coq_makefile, full .vo) + coqc Print Assumptions"
        self.assumptions = []
        self.kf = common.load_known_findings()

    # ---------------------------------------------------------------- proof side
    def prove(self, module, theorem_names, extra_targets=(), strengthening=False):
        """Builds theories/<module>.vo (and deps) and checks Print Assumptions of the theorems.

        strengthening=True: theorems that tie the property to the source by TRANSLATION in addition to the tie by
        correspondence that decides the check (both ties are allowed; the translated-source theorems are stated about
        the Rust source as it is now, so any rewrite of that source, harmless or not, can break their proofs). When they
        do not build, the property is still decided by the core theorems + correspondence; the failure is recorded in
        the evidence (coverage.translated_source_tie) and the caller deepens its correspondence run."""
        if strengthening:
            return self._prove_strengthening(module, theorem_names)
        targets = ["theories/%s.vo" % module] + list(extra_targets)
        ok, out, secs = common.coq_make(targets)
        self.obligations += len(theorem_names)
        if not ok:
            err = _first_coq_error(out)
            self.proof_errors.append("build of %s failed: %s" % (module, err))
            for n in theorem_names:
                self.theorems.append({"module": module, "name": n, "ok": False, "assumptions": "not built"})
            return False
        res = coq_assumptions(module, theorem_names)
        if self.tier == "thorough":
            # independent re-check of the compiled file and everything it depends on
            okc, text = coqchk(module)
            self.extra_cov["coqchk"] = text[-400:]
            if not okc:
                self.proof_errors.append("coqchk rejected %s or reports axioms: %s" % (module, text[-600:]))
        allok = True
        for n in theorem_names:
            a = res.get(n)
            good = a is not None and "Closed under the global context" in a
            self.theorems.append({"module": module, "name": n, "ok": good, "assumptions": a or "missing"})
            if good:
                self.discharged += 1
            else:
                allok = False
                self.proof_errors.append("theorem %s.%s: assumptions not closed: %s" % (module, n, a))
        return allok

    def _prove_strengthening(self, module, theorem_names):
        info = {"module": module, "theorems": list(theorem_names), "established": False}
        self.extra_cov.setdefault("translated_source_tie", []).append(info)
        ok, out, secs = common.coq_make(["theories/%s.vo" % module])
        if not ok:
            info["error"] = _first_coq_error(out)[:600]
            self.notes.append("theorems about the translated source (%s) are NOT established for this revision of the source: %s"
                              % (module, info["error"][:300]))
            return False
        res = coq_assumptions(module, theorem_names)
        bad = [n for n in theorem_names if "Closed under the global context" not in (res.get(n) or "")]
        if bad:
            info["error"] = "assumptions not closed: %s" % bad
            self.proof_errors.append("theorem(s) %s of %s depend on assumptions: %s" % (bad, module, [res.get(n) for n in bad]))
            return False
        info["established"] = True
        for n in theorem_names:
            self.theorems.append({"module": module, "name": n, "ok": True, "assumptions": res.get(n)})
        self.obligations += len(theorem_names)
        self.discharged += len(theorem_names)
        return True

    def hygiene(self):
        bad = common.coq_hygiene()
        if bad:
            self.proof_errors.append("forbidden constructs in development: " + "; ".join(bad[:5]))
        return not bad

    # ---------------------------------------------------------------- correspondence side
    def count(self, n=1):
        self.evaluations += n

    def nontriv(self, key):
        self.nontrivial.add(key)

    def sample(self, s, limit=6):
        if len(self.samples) < limit:
            self.samples.append(s)

    def dist(self, key, n=1):
        self.distribution[key] = self.distribution.get(key, 0) + n

    def disagree(self, observable, case, model, impl):
        self.disagreements.append({"observable": observable, "case": case, "model": model, "impl": impl})

    def translator_error(self, text):
        self.translator_errors.append(text)

    def oracle_fail(self, what, case, cls=None):
        """A direct violation of the property on an implementation observation.

        cls: optional class tag used to match known findings."""
        for f in self.kf.get("findings", []):
            if cls is not None and f.get("class") == cls:
                if f.get("property") == self.pid:
                    self.known_hits.append((f, case))
                else:
                    # a recorded finding of another property, met while sharing that property's input stream
                    self.dist("skipped:known_finding_of_%s" % f.get("property"))
                return
        self.oracle_failures.append({"what": what, "case": case, "class": cls})

    # ---------------------------------------------------------------- decide
    def finish(self):
        wall = time.time() - self.t0
        violation = None
        replay_path = None
        if self.oracle_failures:
            f = min(self.oracle_failures, key=lambda x: len(json.dumps(x, default=str)))
            replay_path = self._write_replay({"kind": "failing-input", "property": self.pid, "failure": f,
                                              "seed": self.seed, "tier": self.tier,
                                              "other_failures": len(self.oracle_failures) - 1})
            violation = "VIOLATION property=%s replay=%s" % (self.pid, replay_path)
        elif self.proof_errors or self.translator_errors or self.disagreements:
            broken = {"kind": "no-failing-input-found", "property": self.pid, "seed": self.seed, "tier": self.tier,
                      "proof_obligations_broken": self.proof_errors[:10],
                      "translator_obligations_broken": self.translator_errors[:10],
                      "correspondence_broken": self.disagreements[:10],
                      "n_disagreements": len(self.disagreements)}
            replay_path = self._write_replay(broken)
            violation = "VIOLATION property=%s replay=%s no-failing-input-found" % (self.pid, replay_path)
        cov = {
            "obligations": self.obligations,
            "discharged": self.discharged,
            "checker_cmd": self.checker_cmd,
            "trusted_base": TRUSTED_BASE_COMMON + self.assumptions,
            "theorems": self.theorems,
            "evaluations": self.evaluations,
            "distinct_nontrivial": len(self.nontrivial),
            "rule": self.rule,
            "samples": self.samples if self.samples else ["(no samples recorded)"],
            "programs": self.programs,
            "disagreements_checked": self.evaluations,
            "disagreements_found": len(self.disagreements),
            "input_distribution": self.distribution,
            "known_findings_reproduced": [f.get("id") for f, _ in self.known_hits][:20],
            "notes": self.notes,
        }
        if self.exhaustive is not None:
            cov["exhaustive"] = self.exhaustive
        cov.update(self.extra_cov)
        ev = {
            "property_id": self.pid,
            "tier": self.tier,
            "seed": self.seed,
            "level": "proof",
            "coverage": cov,
            "assumptions": self.assumptions,
            "wall_s": round(wall, 2),
            "violations": 0 if violation is None else max(1, len(self.oracle_failures)),
        }
        common.write_json(os.path.join(VERIF, "evidence", "%s.json" % self.pid), ev)
        seen = set()
        for f, case in self.known_hits:
            if f.get("id") in seen:
                continue
            seen.add(f.get("id"))
            print("KNOWN-FINDING: property=%s %s" % (self.pid, f.get("what_fails", f.get("id"))))
        if violation:
            print(violation)
            sys.stdout.flush()
            return 1
        print("OK property=%s tier=%s theorems=%d/%d evaluations=%d distinct_nontrivial=%d wall=%.1fs" % (
            self.pid, self.tier, self.discharged, self.obligations, self.evaluations, len(self.nontrivial), wall))
        sys.stdout.flush()
        return 0

    def _write_replay(self, obj):
        d = os.path.join(VERIF, "replays")
        os.makedirs(d, exist_ok=True)
        path = os.path.join(d, "%s-%s.json" % (self.pid, common.sha(json.dumps(obj, sort_keys=True, default=str))))
        common.write_json(path, obj)
        return path


def _first_coq_error(out):
    lines = out.splitlines()
    for i, l in enumerate(lines):
        if l.startswith("File ") and i + 1 < len(lines):
            return " | ".join(lines[i:i + 8])[:1500]
    return out[-1500:]


def coq_assumptions(module, names):
    """Runs Print Assumptions for each theorem in a scratch file; returns {name: text}."""
    d = os.path.join(common.WORK, "assum_%d" % os.getpid())
    os.makedirs(d, exist_ok=True)
    path = os.path.join(d, "A.v")
    modname = "SV." + module.replace("/", ".")
    with open(path, "w") as f:
        f.write("Require Import %s.\n" % modname)
        for n in names:
            f.write('Goal True. idtac "@@BEGIN %s". Abort.\nPrint Assumptions %s.\nGoal True. idtac "@@END". Abort.\n' % (n, n))
    p = subprocess.run(["coqc", "-noglob", "-q", "-Q", os.path.join(COQ, "theories"), "SV", path],
                       cwd=d, capture_output=True, text=True, timeout=300)
    res = {}
    if p.returncode != 0:
        for n in names:
            res[n] = "Print Assumptions failed: " + (p.stderr or p.stdout)[-500:]
    else:
        text = p.stdout
        for n in names:
            b = text.find("@@BEGIN %s\n" % n)
            e = text.find("@@END", b)
            if b >= 0 and e >= 0:
                res[n] = text[b + len("@@BEGIN %s\n" % n):e].strip()
    for fn in os.listdir(d):
        os.unlink(os.path.join(d, fn))
    os.rmdir(d)
    return res


def coqchk(module):
    modname = "SV." + module.replace("/", ".")
    try:
        p = subprocess.run(["coqchk", "-silent", "-o", "-Q", os.path.join(COQ, "theories"), "SV", modname],
                           cwd=COQ, capture_output=True, text=True, timeout=900)
    except subprocess.TimeoutExpired:
        return False, "coqchk timeout"
    text = p.stdout + p.stderr
    ok = p.returncode == 0 and "Axioms: <none>" in text
    return ok, text


def main_wrapper(pid, check_fn, argv):
    import argparse
    ap = argparse.ArgumentParser()
    ap.add_argument("--tier", default=os.environ.get("VERIF_TIER", "quick"))
    ap.add_argument("--replay", default=None)
    args = ap.parse_args(argv)
    seed = int(os.environ.get("VERIF_SEED", "20260926"))
    run = Run(pid, args.tier if args.tier in ("quick", "thorough") else "quick", seed)
    try:
        if args.replay:
            return check_fn(run, replay=args.replay)
        check_fn(run)
    except common.BuildError as e:
        # infrastructure failure building or running a harness against the current tree:
        # the property is no longer shown to hold.
        run.translator_error("harness failure: %s: %s" % (e.what, (e.output or "")[-1500:]))
        log("harness failure:", e.what)
        log((e.output or "")[-3000:])
    except Exception:
        tb = traceback.format_exc()
        run.translator_error("internal error in check: " + tb[-1500:])
        log(tb)
    return run.finish()
