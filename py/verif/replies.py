"""Reply programs: abstract spec, generator, Rust / Coq renderers, reference semantics (the property
stated directly), L1 canonicaliser of the real expansion and the L2 corpus runner."""
import base64
import hashlib
import json
import os
import re
import shutil
import subprocess
import time
from dataclasses import dataclass, field
from typing import List, Optional, Tuple

from . import common, jsonx
from .common import CACHE, REPO, VERIF, log, coq_string, coq_list
from .prog import Contract, Method, Arg, P, PP, Tup, Ty, sv_msg, sv_features, sv_data, sv_payload, Attr

SRC = os.path.join(VERIF, "harness", "corpus")

DATA_MODES = [None, (), ("raw",), ("raw", "opt"), ("opt",), ("instantiate",), ("instantiate", "opt")]
DATA_TYS = [P("u32"), P("String"), P("Pt")]
PAYLOAD_TYS = [P("u32"), P("String"), P("Option", P("u32")), P("Vec", P("String")), P("bool")]
HANDLER_NAMES = ["on_done", "handler1", "after_mint", "x2_y", "cb", "reply_a", "on_transfer_failed"]


@dataclass
class RMethod:
    name: str
    on: str                                     # success | error | always
    handlers: List[str] = field(default_factory=list)
    data: Optional[tuple] = None                # None = no marker; () = bare #[sv::data]; flags otherwise
    data_ty: Optional[Ty] = None                # inner JSON type for typed modes
    payload: List[Tuple[str, Ty]] = field(default_factory=list)
    raw: bool = False                           # #[sv::payload(raw)] on the (first) payload parameter
    payload_flags: Optional[tuple] = None       # other arguments written in the payload marker (a rule-breaking program)
    explicit_on: bool = True
    data_index: int = 0                         # position of the data parameter among the fields (0 = right after ctx)

    def claims(self):
        return self.handlers if self.handlers else [self.name]

    def data_param_ty(self):
        d = self.data
        if d is None:
            return None
        if "raw" in d:
            t = P("Binary")
        elif "instantiate" in d:
            t = PP("svfw", "cw_utils", "MsgInstantiateContractResponse")
        else:
            t = self.data_ty or P("u32")
        return P("Option", t) if "opt" in d else t

    def fields(self):
        """all parameters after ctx, as Arg"""
        args = []
        if self.on == "error":
            args.append(Arg("error", P("String")))
        elif self.on == "always":
            args.append(Arg("result", P("SubMsgResult")))
        pl = []
        for i, (n, t) in enumerate(self.payload):
            a = Arg(n, t)
            if self.payload_flags is not None and i == 0:
                a.attrs.append(sv_payload(self.payload_flags))
            elif self.raw and i == 0:
                a.attrs.append(sv_payload(("raw",)))
            pl.append(a)
        if self.data is not None and self.data_index == -1 and args:
            # (rule-breaking) the marker sits on the `error` / `result` parameter itself
            args[0].attrs.append(sv_data(self.data, bare=(self.data == ())))
        elif self.data is not None:
            d = Arg("data", self.data_param_ty(), [sv_data(self.data, bare=(self.data == ()))])
            if self.on == "success":
                pl.insert(min(self.data_index, len(pl)), d)
            else:
                args.insert(min(self.data_index, len(args)), d)
        return args + pl

    def to_method(self, body=None):
        m = Method(self.name, [sv_msg("reply", handlers=tuple(self.handlers), reply_on=self.on if self.explicit_on else None)],
                   self.fields(), P("StdResult", P("Response")), ctx_ty="ReplyCtx", vis="")
        if body:
            m.body = body
        return m


@dataclass
class RProg:
    methods: List[RMethod]
    name: str = "Ctr"
    idx: int = 0
    decor: Optional[dict] = None        # L1 only: other features of a contract around the reply table (see gen_decor)

    def contract(self, bodies=False):
        d = self.decor if (self.decor and not bodies) else {}
        c = Contract(self.name, generics=list(d.get("generics", [])))
        for a in d.get("attrs_before", []):
            c.attrs.append(a)
        c.attrs.append(sv_features(["replies"]))
        for a in d.get("attrs_after", []):
            c.attrs.append(a)
        c.items.append(Method("instantiate", [sv_msg("instantiate")], [], P("StdResult", P("Response")), ctx_ty="InstantiateCtx",
                              body="{ Ok(Response::new()) }"))
        extra = list(d.get("methods", []))
        for m in self.methods:
            while extra and d.get("interleave") and len(extra) > 0 and (hash((m.name, len(extra))) % 3 == 0):
                c.items.append(extra.pop(0))
            c.items.append(m.to_method(echo_body(m) if bodies else None))
        c.items.extend(extra)
        return c


def gen_decor(rng):
    """Features that should not change anything about reply handling, in combination with it: a generic contract,
    interfaces, chain-custom types, a custom error type, overridden entry points, handlers of the other kinds between the
    reply methods."""
    from .prog import sv_messages, sv_custom, sv_error, sv_override, Arg
    if rng.random() < 0.5:
        return None
    d = {"generics": [], "attrs_before": [], "attrs_after": [], "methods": [], "interleave": rng.random() < 0.5}
    if rng.random() < 0.4:
        d["generics"] = rng.choice([["T"], ["T", "U"]])
    pool = []
    if rng.random() < 0.5:
        pool.append(sv_messages(["ifaces", "iface_a"], as_name=rng.choice([None, "Alias1"])))   # (a redundant alias is a warning, which the in-process probe cannot tell from an error)
    if rng.random() < 0.3:
        pool.append(sv_messages(["owner_api"], custom_msg=rng.random() < 0.5, custom_query=rng.random() < 0.5))
    if rng.random() < 0.4:
        pool.append(sv_custom(msg=rng.choice([None, "MyMsg"]), query=rng.choice([None, "MyQuery"])))
    if rng.random() < 0.4:
        pool.append(sv_error("ContractError"))
    for k in ("sudo", "exec", "migrate"):
        if rng.random() < 0.2:
            pool.append(sv_override(k, "crate::custom_%s" % k, "Custom%sMsg" % k.capitalize()))
    for a in pool:
        (d["attrs_before"] if rng.random() < 0.5 else d["attrs_after"]).append(a)
    ret = P("StdResult", P("Response"))
    gens = d["generics"]
    if rng.random() < 0.6:
        d["methods"].append(Method("bump", [sv_msg("exec")], [Arg("by", P(gens[0]) if gens else P("u32"))], ret, ctx_ty="ExecCtx"))
    if rng.random() < 0.5:
        d["methods"].append(Method("value", [sv_msg("query")], [], P("StdResult", P(gens[-1]) if gens else P("u32")), ctx_ty="QueryCtx"))
    if rng.random() < 0.3:
        d["methods"].append(Method("upgrade", [sv_msg("migrate")], [], ret, ctx_ty="MigrateCtx"))
    if rng.random() < 0.3:
        d["methods"].append(Method("tick", [sv_msg("sudo")], [], ret, ctx_ty="SudoCtx"))
    return d


def echo_body(m):
    first = "None"
    if m.on == "error":
        first = "Some(error.clone())"
    elif m.on == "always":
        first = "Some(j(&result))"
    elif m.data is not None:
        d = m.data
        if "instantiate" in d:
            first = "Some(data.as_ref().map(inst_obs).unwrap_or_else(|| \"none\".into()))" if "opt" in d else "Some(inst_obs(&data))"
        else:
            first = "Some(j(&data))"
    pl = "vec![%s]" % ", ".join("j(&%s)" % n for n, _ in m.payload)
    return "{ echo_reply(\"%s\", ctx, %s, %s) }" % (m.name, first, pl)


# ------------------------------------------------------------------------------------------ reference
def excludes(a, b):
    return a == b or a == "always" or b == "always"


def upper_snake_ref(h):
    """reply id constant for the handler names of the pool (plain lower words / trailing digits): independent of the Coq
    casing model - words are split at underscores and before a digit run."""
    words = []
    for w in h.split("_"):
        m = re.fullmatch(r"([a-z]*)([0-9]*)", w)
        if not m:
            return None
        if m.group(1):
            words.append(m.group(1))
        if m.group(2):
            words.append(m.group(2))
    return "_".join(x.upper() for x in words) + "_REPLY_ID"


def reference(methods):
    """The property's reading of a method list: (valid?, {reply id constant: group}) where group = dict with
    order (first claim position), ok/err method, sigs."""
    groups = {}
    order = []
    valid = True
    why = []
    for m in methods:
        # per-method rules
        if m.data is not None:
            if m.on != "success":
                valid = False
                why.append("data marker on a %s method" % m.on)
            elif m.data_index != 0:
                valid = False
                why.append("data marker not on the first parameter")
            if "raw" in m.data and "instantiate" in m.data:
                valid = False
                why.append("instantiate with raw")
        if m.payload_flags is not None and tuple(m.payload_flags) != ("raw",):
            valid = False
            why.append("unknown argument of the payload marker")
        if not m.payload:
            valid = False
            why.append("no payload parameter")
        if m.raw and len(m.payload) != 1:
            valid = False
            why.append("raw payload with further parameters")
        for h in m.claims():
            rid = upper_snake_ref(h)
            if rid not in groups:
                groups[rid] = {"handler": h, "members": []}
                order.append(rid)
            groups[rid]["members"].append(m)
    for rid, g in groups.items():
        ms = g["members"]
        names = sorted({h for m in ms for h in m.claims() if upper_snake_ref(h) == rid})
        if len(names) > 1:
            # distinct handler names must get distinct ids (C08): names sharing a constant cannot both be served
            valid = False
            why.append("%s: handler names %s share one reply id constant" % (rid, "/".join(names)))
        for i in range(len(ms)):
            for k in range(i + 1, len(ms)):
                if excludes(ms[i].on, ms[k].on):
                    valid = False
                    why.append("%s: %s and %s both claim outcome" % (rid, ms[i].name, ms[k].name))
        sig0 = [t.rust() for _, t in ms[0].payload]
        for m in ms[1:]:
            if [t.rust() for _, t in m.payload] != sig0:
                valid = False
                why.append("%s: payload signatures differ" % rid)
            if m.raw != ms[0].raw:
                valid = False
                why.append("%s: one method takes the payload raw, another decodes it" % rid)
    return valid, groups, order, why


def method_for(group, outcome):
    want = ("success", "always") if outcome == "ok" else ("error", "always")
    for m in group["members"]:
        if m.on in want:
            return m
    return None


# ------------------------------------------------------------------------------------------ generator
def gen_payload(rng):
    if rng.random() < 0.3:
        return [("pl", P("Binary"))], True
    n = rng.choice([1, 1, 2, 3])
    # (incl. names the generated builders and dispatch use for their own locals: a payload parameter may be called
    #  gas_limit, msg, id, payload, reply_on or result and must still travel unchanged)
    names = rng.sample(["p", "q", "amount", "memo", "flag", "gas_limit", "msg", "id", "payload", "reply_on", "result"], n)
    return [(nm, rng.choice(PAYLOAD_TYS)) for nm in names], False


def gen_table(rng, valid_bias=0.8):
    """A list of reply methods; with probability ~valid_bias a table the validator must accept."""
    methods = []
    used_names = set()
    n_groups = rng.choice([1, 1, 2, 2, 3])
    hnames = rng.sample(HANDLER_NAMES, n_groups)
    k = 0

    def mname(prefix):
        nonlocal k
        k += 1
        return "%s_%d" % (prefix, k) if rng.random() < 0.7 else "%s%d" % (prefix, k)

    for h in hnames:
        payload, raw = gen_payload(rng)
        cover = rng.choice(["success", "error", "both", "always", "both"])
        kinds = {"success": ["success"], "error": ["error"], "both": ["success", "error"], "always": ["always"]}[cover]
        rng.shuffle(kinds)
        for on in kinds:
            own_name = rng.random() < 0.25 and len(kinds) == 1
            m = RMethod(name=h if own_name else mname({"success": "ok", "error": "fail", "always": "any"}[on]), on=on,
                        handlers=[] if own_name else [h], payload=[(n, t) for n, t in payload], raw=raw,
                        explicit_on=not (on == "always" and rng.random() < 0.5))
            if on == "success" and rng.random() < 0.6:
                m.data = rng.choice(DATA_MODES[1:])
                m.data_ty = rng.choice(DATA_TYS)
            # parameter names may differ between merged methods
            if rng.random() < 0.3 and not raw:
                m.payload = [(n + "2", t) for n, t in m.payload]
            methods.append(m)
    # a method claiming two handler names (same signature needed): add h2 to a method of the first group
    if len(hnames) >= 2 and rng.random() < 0.45:
        a = rng.choice([m for m in methods if hnames[0] in m.claims()])
        b = [m for m in methods if hnames[1] in m.claims()]
        if all([t.rust() for _, t in x.payload] == [t.rust() for _, t in a.payload] and x.raw == a.raw for x in b) and \
                not any(excludes(x.on, a.on) for x in b):
            if not a.handlers:
                a.handlers = [a.name]
            # (the shared name anywhere in the list, not only last; sometimes a third name that only this method claims)
            a.handlers.insert(rng.randint(0, len(a.handlers)), hnames[1])
            if rng.random() < 0.3:
                a.handlers.insert(rng.randint(0, len(a.handlers)), "solo_%s" % a.name)
    rng.shuffle(methods)
    if rng.random() > valid_bias:
        mutate_invalid(rng, methods)
    return methods


def mate_before(rng, methods, x):
    """the faulty method x shares its handler name with a well-formed method of the other outcome that is declared
    BEFORE it (validation must not stop at the first method of a name)"""
    if x.on == "always":
        return
    h = list(x.claims())[0]
    want = {"success": "error", "error": "success"}[x.on]
    mates = [y for y in methods if y is not x and h in y.claims()]
    if any(y.on != want for y in mates):
        return                          # another fault would join: keep the single one
    if not mates:
        pl = list(x.payload)
        if x.data is not None and x.on == "success" and x.data_index >= 1:
            # the mate's payload has, at the position of the misplaced data parameter, a parameter of that very type: were
            # the marker ignored, the two signatures would agree
            i = min(x.data_index, len(pl))
            pl = pl[:i] + [("data", x.data_param_ty())] + pl[i:]
        methods.append(RMethod(name=x.name + "_m", on=want, handlers=[h], payload=pl, raw=x.raw))
    methods.remove(x)
    methods.append(x)


def mutate_invalid(rng, methods):
    """one rule-breaking (or near-rule) edit"""
    m = rng.choice(methods)
    kind = rng.choice(["dup_outcome", "always_plus", "payload_len", "payload_ty", "data_on_error", "data_second", "no_payload",
                       "raw_plus", "inst_raw", "same_const", "raw_mismatch", "bad_payload_arg"])
    if kind == "dup_outcome":
        methods.append(RMethod(name=m.name + "_again", on=m.on, handlers=list(m.claims())[:1], payload=list(m.payload), raw=m.raw))
    elif kind == "always_plus":
        methods.append(RMethod(name=m.name + "_any", on="always" if m.on != "always" else "error", handlers=list(m.claims())[:1],
                               payload=list(m.payload), raw=m.raw))
    elif kind == "payload_len":
        other = RMethod(name=m.name + "_o", on={"success": "error", "error": "success", "always": "error"}[m.on],
                        handlers=list(m.claims())[:1], payload=list(m.payload) + [("extra", P("u32"))], raw=False)
        if m.raw:
            other.payload = [("pl", P("Binary")), ("extra", P("u32"))]
        methods.append(other)
    elif kind == "payload_ty":
        def other_ty(t):
            # a different type: mostly one that shares the outer name and differs in a type argument or in the module it
            # comes from (what a comparison by the last path segment would miss), sometimes a plainly different one
            txt = t.rust().replace(" ", "")
            r = rng.random()
            if txt.startswith("Vec<"):
                return P("Vec", P("u64")) if txt != "Vec<u64>" else P("Vec", P("String"))
            if txt.startswith("Option<"):
                return P("Option", P("u8")) if txt != "Option<u8>" else P("Option", P("String"))
            if r < 0.5:
                return PP("other", txt.split("<")[0].split("::")[-1])
            return P("u64") if txt != "u64" else P("u32")
        if not m.raw:
            m.payload = [(n, rng.choice([t, t, P("Vec", P("String")), P("Option", P("String"))])) for n, t in m.payload]
        # the ONLY fault must be the payload types: when the name already has a second method, its payload is changed;
        # otherwise a method for the opposite outcome is added (an `always` method leaves no free outcome)
        h = list(m.claims())[0]
        mates = [x for x in methods if x is not m and h in x.claims()]
        if mates and not mates[0].raw:
            mates[0].payload = [(n2, other_ty(t)) for (n2, _), (_, t) in zip(mates[0].payload, m.payload)] \
                if len(mates[0].payload) == len(m.payload) else [(n, other_ty(t)) for n, t in m.payload]
        elif m.on != "always" and not mates:
            other = RMethod(name=m.name + "_o", on={"success": "error", "error": "success"}[m.on],
                            handlers=[h], payload=[(n, other_ty(t)) for n, t in m.payload], raw=False)
            methods.append(other)
        else:
            m.on = "success"
            other = RMethod(name=m.name + "_o", on="error", handlers=[h], payload=[(n, other_ty(t)) for n, t in m.payload], raw=False)
            methods[:] = [x for x in methods if x is m or h not in x.claims()] + [other]
    elif kind == "data_on_error":
        m2 = [x for x in methods if x.on != "success"]
        if m2:
            x = rng.choice(m2)
            x.data = rng.choice([(), ("opt",), ("raw",)])
            x.data_ty = P("u32")
            if rng.random() < 0.4:
                x.data_index = -1
            if rng.random() < 0.5:
                mate_before(rng, methods, x)
    elif kind == "data_second":
        m2 = [x for x in methods if x.on == "success" and not x.raw]
        if m2:
            x = rng.choice(m2)
            x.data = rng.choice([(), ("raw",)])
            x.data_ty = P("u32")
            x.data_index = 1
            if rng.random() < 0.5:
                mate_before(rng, methods, x)
    elif kind == "bad_payload_arg":
        # `#[sv::payload(..)]` with anything but exactly `raw` is an unknown attribute argument
        if not m.payload:
            m.payload = [("pl", P("Binary"))]
        m.payload_flags = rng.choice([("rwa",), ("opt",), ("raw", "opt"), ("invalid",), ("Raw",)])
    elif kind == "no_payload":
        m.payload = []
        m.raw = False
    elif kind == "raw_plus":
        m.payload = [("pl", P("Binary")), ("more", P("u32"))]
        m.raw = True
    elif kind == "inst_raw":
        m2 = [x for x in methods if x.on == "success"]
        if m2:
            m2[0].data = ("instantiate", "raw")
    elif kind == "raw_mismatch":
        # same payload type, but only one of the merged methods marks it raw
        methods.append(RMethod(name=m.name + "_o", on={"success": "error", "error": "success", "always": "error"}[m.on],
                               handlers=list(m.claims())[:1], payload=[("pl", P("Binary"))], raw=not m.raw))
        m.payload = [("pl", P("Binary"))]
    elif kind == "same_const":
        # handler names with the same constant image (handler1 / handler_1)
        # (same outcome, or complementary outcomes that would merge into one entry if the names were equal)
        a, b = rng.sample(["handler_1", "handler1", "handler__1"], 2) if rng.random() < 0.7 else rng.sample(["on_2_done", "on2_done", "on__2_done"], 2)
        on2 = m.on if rng.random() < 0.3 else {"success": "error", "error": "success", "always": "error"}[m.on]
        on1 = m.on if m.on != "always" else "success"
        methods.append(RMethod(name="clash", on=on1, handlers=[a], payload=list(m.payload), raw=m.raw))
        methods.append(RMethod(name="clash2", on=on2, handlers=[b], payload=list(m.payload), raw=m.raw))
        if rng.random() < 0.5:
            methods[-1], methods[-2] = methods[-2], methods[-1]


# ------------------------------------------------------------------------------------------ L1 canonicaliser
def nows(s):
    return "".join(s.split())


def inline_helpers(f, mod, text):
    """Calls of private helper functions of the generated module (free fns named `__..` whose body is one expression) are
    replaced by that expression with the arguments substituted: moving a struct literal into a helper is not a change."""
    from .canon import retok, untok, split_depth
    helpers = {}
    for k, v in f.kv:
        m = re.fullmatch(r"%s::(__\w+)\|body" % re.escape(mod), k)
        if not m:
            continue
        name = m.group(1)
        body = retok(v)
        if not (body.startswith("{ ") and body.endswith(" }")) or len(split_depth(body[2:-2], ";")) != 1:
            continue
        params, i = [], 0
        while f.one("%s::%s#%d|param" % (mod, name, i)) is not None:
            pm = re.match(r"pat=(\w+);ty=", f.one("%s::%s#%d|param" % (mod, name, i)))
            if not pm:
                params = None
                break
            params.append(pm.group(1))
            i += 1
        if params is not None:
            helpers[name] = (params, body[2:-2])
    if not helpers:
        return text
    t = retok(text)
    for name, (params, expr) in helpers.items():
        for _ in range(50):
            m = re.search(r"(?<![\w.] )\b%s (?::: < [^()]*? > )?\( " % re.escape(name), t)
            if not m:
                break
            toks, depth, j = t[m.end():].split(" "), 1, 0
            while j < len(toks) and depth > 0:
                if toks[j] in ("(", "[", "{"):
                    depth += 1
                elif toks[j] in (")", "]", "}"):
                    depth -= 1
                j += 1
            inner = " ".join(toks[:j - 1])
            args = [a.strip() for a in split_depth(inner, ",") if a.strip()]
            if len(args) != len(params):
                break
            e = expr
            # (shorthand fields `SubMsg { id , payload }` name a parameter twice: expand them first)
            for pn in params:
                e = re.sub(r"(?<=[{,] )%s(?= [,}])" % re.escape(pn), "%s : %s" % (pn, pn), e)
            sub = dict(zip(params, args))
            e = re.sub(r"(?<![\w.] )(?<!: : )\b(%s)\b(?! :(?!:))" % "|".join(re.escape(x) for x in params), lambda mm: sub[mm.group(1)], e)
            t = t[:m.start()] + e + " " + " ".join(toks[j:])
    return untok(t)


def canon_reply(f):
    """probe facts of a contract expansion -> lines in the format of RunReply.show_reply_contract"""
    if f.status != "accepted":
        return ["status=rejected"]
    consts = []
    for k, v in f.kv:
        m = re.fullmatch(r"::sv::(\w+_REPLY_ID)\|const", k)
        if m:
            mv = re.search(r"val=(\d+)u64", v)
            consts.append((int(mv.group(1)) if mv else -1, m.group(1)))
    body = f.one("::sv::dispatch_reply|body")
    if body is None:
        return ["status=accepted", "reply_ids=<legacy>"]
    consts.sort()
    lines = ["status=accepted", "reply_ids=" + ",".join(c for _, c in consts)]
    if [i for i, _ in consts] != list(range(len(consts))):
        lines.append("reply_ids_not_consecutive=" + ",".join("%s:%d" % (c, i) for i, c in consts))
    # split the `match id` arms
    arms = {}
    # (one branch per reply id: arms of `match id`, or a chain of `if id == ..`)
    heads = [(m.start(), m.group(1) or m.group(2)) for m in
             re.finditer(r"(?:(\w+_REPLY_ID) => \{|if id == (\w+_REPLY_ID) \{) match result \{", body)]
    tail = max(body.rfind("_ => {"), body.rfind("else { let err_msg"))
    for i, (pos, rid) in enumerate(heads):
        end = heads[i + 1][0] if i + 1 < len(heads) else tail
        arms[rid] = body[pos:end]
    builders = {}
    for k, v in f.kv:
        m = re.fullmatch(r"::sv::impl#(\d+)::(\w+)\|body", k)
        if m and "ReplyOn ::" in v:
            v = inline_helpers(f, "::sv", v)
        if m and "ReplyOn ::" in v and "SubMsg {" in v:
            impl_head = f.one("::sv::impl#%s|impl" % m.group(1), "")
            recv = "submsg" if "self=sylvia :: cw_std :: SubMsg" in impl_head else ("wasm" if "WasmMsg" in impl_head else "cosmos")
            builders.setdefault(m.group(2), {})[recv] = v
    for _, rid in consts:
        arm = arms.get(rid, "")
        mo = re.search(r"SubMsgResult :: Ok \((\w+)\) => \{(.*?)\} sylvia :: cw_std :: SubMsgResult :: Err \((\w+)\) => \{(.*)\} \} \}", arm, flags=re.S)
        if not mo:
            lines.append("reply %s ok=unparsed:%s" % (rid, arm[:200]))
            continue
        okb, errb = mo.group(2), mo.group(4)
        lines.append("reply %s ok=%s" % (rid, canon_arm(okb, "ok")))
        lines.append("reply %s err=%s" % (rid, canon_arm(errb, "err")))
        # builder
        hid = None
        for h, bs in builders.items():
            if any(re.search(r"id : %s\b" % rid, b) for b in bs.values()):
                hid = h
        if hid is None:
            lines.append("reply %s builder=<none>" % rid)
            continue
        bs = builders[hid]
        descs = set()
        for recv, b in bs.items():
            ro = re.search(r"reply_on : sylvia :: cw_std :: ReplyOn :: (\w+)", b)
            pm = payload_mode_of_builder(b)
            shape = "..self" if recv == "submsg" else "msg:self.into(),gas_limit:None"
            # (an existing sub-message keeps its message and gas limit: by `..self` or field by field)
            ok_shape = (".. self" in b or ("msg : self . msg" in b and "gas_limit : self . gas_limit" in b)) if recv == "submsg" \
                else (("msg : self . into ()" in b or "msg : Into :: into (self)" in b) and "gas_limit : None" in b)
            descs.add("%s:%s%s" % (ro.group(1) if ro else "?", pm, "" if ok_shape else ":unexpected_shape(%s)" % recv))
        params = []
        i = 1
        while f.one("::sv::SubMsgMethods::%s#%d|param" % (hid, i)) is not None:
            p = f.one("::sv::SubMsgMethods::%s#%d|param" % (hid, i))
            mm = re.match(r"pat=(\w+);ty=(.*)", p)
            params.append("%s:%s" % (mm.group(1), nows(mm.group(2))) if mm else p)
            i += 1
        if len(descs) == 1 and len(bs) == 3:
            ro, pm = list(descs)[0].split(":", 1)
            lines.append("reply %s builder=%s:%s:%s:%s" % (rid, hid, ro, ",".join(params), pm))
        else:
            lines.append("reply %s builder=%s:inconsistent:%s" % (rid, hid, sorted(descs)))
    return lines


def payload_mode_of_builder(b):
    # the variable that ends up in the `payload` field of the sub-message, whatever it is called
    lit = b[b.rfind("SubMsg {"):] if "SubMsg {" in b else b
    mv = re.search(r"\bpayload(?: : (\w+))? [,}]", lit)
    var = (mv.group(1) if mv and mv.group(1) else "payload")
    m = re.search(r"let %s = (?:match )?sylvia :: cw_std :: to_json_binary \(& \((.*?)\)\)(?: \? ;| \{)" % re.escape(var), b)
    if m:
        return "typed(%s)" % ",".join(x.strip() for x in m.group(1).split(",") if x.strip())
    m = re.search(r"let %s = (\w+) ;" % re.escape(var), b)
    if m:
        return "raw(%s)" % m.group(1)
    return "unparsed"


def payload_mode_of_arm(b):
    # (the reply's payload may have been bound to any name)
    m = re.search(r"let \((.*?)\) = (?:match )?sylvia :: cw_std :: from_json \(& \w+\)(?: \? ;| \{)", b)
    if m:
        return "typed(%s)" % ",".join(x.strip() for x in m.group(1).split(",") if x.strip())
    m = re.search(r"let (\w+) = (?:payload|raw_payload|msg \. payload) ;", b)
    if m:
        return "raw(%s)" % m.group(1)
    return "unparsed"


def data_mode_of_arm(b, has_data_arg):
    """Which extraction the arm performs, read off what it calls and how it treats absence - not off the names of the
    local bindings (renaming a macro-internal identifier is not a change of behaviour)."""
    if not has_data_arg:
        return "none"
    inst = "parse_instantiate_response_data" in b
    exe = "parse_execute_response_data" in b
    # optional modes map missing data to None (a `match` arm, or the `else` of an `if let Some(..)`)
    absent_is_none = re.search(r"None => None\b|\} else \{ None \}", b) is not None
    if inst:
        return "inst_opt" if absent_is_none else "inst"
    if exe:
        return "opt" if absent_is_none else "typed"
    # raw modes: the bytes are handed over as they are; the mandatory one rejects absence
    return "raw" if re.search(r"None => return Err\b|None => Err\b|= data else \{ return Err\b", b) else "raw_opt"


HANDLER_CALL = re.compile(
    r"(?::: new \(\) \. (\w+) \(\((.*?)\) \. into \(\) , (.*)\) $"            # Contract::new().m((ctx..).into(), args)
    r"|:: new \(\) \. (\w+) \((?:Into :: into|From :: from|\w+ :: from) \(\((.*?)\)\) , (.*)\) $)")


def canon_arm(b, which):
    call = HANDLER_CALL.search(b.strip() + " ")
    if not call:
        # pass-through: no handler is called; a success is answered with the sub-message's events and data, a failure with
        # that error (how the response / error value is put together is not compared here: the L2 run observes it)
        if which == "ok" and "add_events" in b and "set_data" in b and re.search(r"\bOk \(", b):
            return "pass"
        if which == "err" and "generic_err" in b and re.search(r"\bErr \(", b):
            return "pass"
        return "unparsed:" + b[:160]
    g = [x for x in call.groups() if x is not None]
    fn, ctx, args = g[0], nows(g[1]), [a.strip() for a in g[2].split(",") if a.strip()]
    pm = payload_mode_of_arm(b)
    full_ctx = ctx == "deps,env,gas_used,events,msg_responses"
    empty_ctx = ctx in ("deps,env,gas_used,vec![],vec![]", "deps,env,gas_used,Vec::new(),Vec::new()")
    pnames = re.match(r"\w+\((.*)\)", pm).group(1).split(",") if "(" in pm else []
    pnames = [p for p in pnames if p]
    lead = args[:len(args) - len(pnames)]
    if args[len(args) - len(pnames):] != pnames:
        return "unparsed_args:%s vs %s" % (args, pnames)
    if which == "ok" and full_ctx and lead in ([], ["data"]):
        return "success:%s:%s:%s" % (fn, data_mode_of_arm(b, lead == ["data"]), pm)
    if empty_ctx and lead == ["result"]:
        return "always:%s:%s" % (fn, pm)
    if which == "err" and empty_ctx and lead == ["error"]:
        return "error:%s:%s" % (fn, pm)
    return "unexpected:%s:%s:%s" % (fn, ctx, lead)


# ------------------------------------------------------------------------------------------ L2 corpus
def render_reply_program(idx, p):
    out = []
    w = out.append
    w("// generated reply program %d" % idx)
    w("#![allow(unused_imports, unused_variables, dead_code, non_snake_case, clippy::all, deprecated)]")
    w("use crate::rt::*;")
    w("use serde_json::{json, Value};")
    w("use svfw::cw_std::{Binary, Response, StdError, StdResult, SubMsg, SubMsgResult, WasmMsg, CosmosMsg, BankMsg, Empty, ReplyOn};")
    w("pub mod contract {")
    w("    use crate::rt::*;")
    w("    use svfw::ctx::{InstantiateCtx, ReplyCtx};")
    w("    use svfw::cw_std::{Binary, Response, StdError, StdResult, SubMsgResult};")
    w("    pub struct %s;" % p.name)
    text = p.contract(bodies=True).rust_impl(extra_attrs=["#[svfw::entry_points]", "#[svfw::contract]"]).replace("Self::construct()", "Self")
    w("    " + text.replace("\n", "\n    "))
    w("}")
    w("use contract::sv::SubMsgMethods;")
    valid, groups, order, _ = reference(p.methods)
    w("fn ids() -> Value { json!({%s}) }" % ", ".join('"%s": contract::sv::%s' % (rid, rid) for rid in order))
    # dispatch a reply
    w("fn reply(op: &Value) -> Value {")
    w("    let mut deps = fresh_deps();")
    w("    prime_storage(&mut deps.storage, op);")
    w("    let (mut env, _) = setup_env(op);")
    w("    let msg = reply_from(op);")
    w('    let r = if op["via"].as_str() == Some("entry") { contract::entry_points::reply(deps.as_mut(), env, msg) } else { contract::sv::dispatch_reply(deps.as_mut(), env, msg, contract::%s::new()) };' % p.name)
    w('    let res = match r { Ok(r) => json!({"ok": resp_obs(&r)}), Err(e) => json!({"err": e.to_string()}) };')
    w('    json!({"res": res, "storage": storage_obs(&deps.storage)})')
    w("}")
    # builders
    w("fn build(op: &Value) -> Value {")
    w('    let args = &op["args"];')
    w('    let base_msg: CosmosMsg<Empty> = CosmosMsg::Bank(BankMsg::Send { to_address: "to".into(), amount: vec![] });')
    w('    let wasm = WasmMsg::ClearAdmin { contract_addr: "c".into() };')
    w('    let r: Result<SubMsg<Empty>, String> = match (op["handler"].as_str().unwrap_or(""), op["receiver"].as_str().unwrap_or("")) {')
    for rid in order:
        g = groups[rid]
        h = g["handler"]
        m0 = g["members"][0]
        lets, names = [], []
        for i, (n, t) in enumerate(m0.payload):
            if t.rust() == "Binary":
                lets.append('let a%d = Binary::from_base64(args[%d].as_str().unwrap_or("")).unwrap_or_default();' % (i, i))
            else:
                lets.append("let a%d: %s = match arg(args, %d) { Ok(v) => v, Err(e) => return json!({\"error\": e}) };" % (i, t.rust(), i))
            names.append("a%d" % i)
        call = "%s(%s)" % (h, ", ".join(names))
        w('        ("%s", "submsg") => { %s let mut s: SubMsg<Empty> = SubMsg::reply_on_error(base_msg.clone(), 4242); if let Some(g) = op["base_gas"].as_u64() { s = s.with_gas_limit(g); } s = s.with_payload(b"old".to_vec()); s.%s.map_err(|e| e.to_string()) }' % (h, " ".join(lets), call))
        w('        ("%s", "wasm") => { %s SubMsgMethods::<Empty>::%s(wasm.clone(), %s).map_err(|e| e.to_string()) }' % (h, " ".join(lets), h, ", ".join(names)))
        w('        ("%s", "cosmos") => { %s base_msg.clone().%s.map_err(|e| e.to_string()) }' % (h, " ".join(lets), call))
    w('        (a, b) => Err(format!("no builder {} {}", a, b)),')
    w("    };")
    w('    match r { Ok(s) => json!({"ok": serde_json::to_value(&s).unwrap(), "base_msg": serde_json::to_value(&base_msg).unwrap(), "wasm_msg": serde_json::to_value(&CosmosMsg::<Empty>::Wasm(wasm)).unwrap()}), Err(e) => json!({"err": e}) }')
    w("}")
    w("pub fn run(op: &Value) -> Value {")
    w('    match op["op"].as_str().unwrap_or("") {')
    w('        "ids" => ids(),')
    w('        "reply" => reply(op),')
    w('        "build" => build(op),')
    w('        o => json!({"error": format!("unknown op {}", o)}),')
    w("    }")
    w("}")
    return "\n".join(out) + "\n"


class ReplyCorpus:
    def __init__(self, progs, tag="replies"):
        self.progs = progs
        self.tag = tag
        self.exe = None

    def build(self):
        from .corpus import MAIN_RS
        srcs = {}
        mods, arms = [], []
        for i, p in enumerate(self.progs):
            p.idx = i
            srcs["p%d.rs" % i] = render_reply_program(i, p)
            mods.append("mod p%d;" % i)
            arms.append("        %d => p%d::run(op)," % (i, i))
        srcs["main.rs"] = MAIN_RS % {"mods": "\n".join(mods), "arms": "\n".join(arms)}
        h = hashlib.sha256(json.dumps(srcs, sort_keys=True).encode()).hexdigest()[:10]
        d = os.path.join(CACHE, "crates", self.tag)
        with common.locked("cargo"):
            os.makedirs(os.path.join(d, "src"), exist_ok=True)
            with open(os.path.join(d, "Cargo.toml"), "w") as f:
                f.write(common.repo_paths(open(os.path.join(SRC, "Cargo.toml")).read()))
            if not os.path.exists(os.path.join(d, "Cargo.lock")):
                shutil.copy(os.path.join(REPO, "Cargo.lock"), os.path.join(d, "Cargo.lock"))
            shutil.copy(os.path.join(SRC, "src", "rt.rs"), os.path.join(d, "src", "rt.rs"))
            for fn in os.listdir(os.path.join(d, "src")):
                if fn not in srcs and fn != "rt.rs":
                    os.unlink(os.path.join(d, "src", fn))
            for fn, text in srcs.items():
                path = os.path.join(d, "src", fn)
                if not os.path.exists(path) or open(path).read() != text:
                    with open(path, "w") as f:
                        f.write(text)
            t0 = time.time()
            tdir = os.path.join(CACHE, "target-corpus")
            p = subprocess.run(["cargo", "build", "--offline", "--message-format=short"], cwd=d,
                               env=common.cargo_env({"CARGO_TARGET_DIR": tdir, "RUSTFLAGS": "-Awarnings"}),
                               capture_output=True, text=True)
            if p.returncode != 0:
                errs = [l for l in p.stderr.splitlines() if "error" in l][:30]
                raise common.BuildError("reply corpus build failed", "\n".join(errs) + "\n" + p.stderr[-3000:])
            log("reply corpus %s (%d programs) built in %.1fs" % (self.tag, len(self.progs), time.time() - t0))
            exe = os.path.join(tdir, "debug", "corpus")
            mine = os.path.join(CACHE, "work", "corpus_%s_%s" % (self.tag, h))
            shutil.copy(exe, mine)
            self.exe = mine
        return self

    def run(self, ops):
        inp = self.exe + ".%d.in" % os.getpid()
        out = self.exe + ".%d.out" % os.getpid()
        with open(inp, "w") as f:
            for o in ops:
                f.write(json.dumps(o) + "\n")
        p = subprocess.run([self.exe, inp, out], capture_output=True, text=True)
        if p.returncode != 0:
            raise common.BuildError("reply corpus run failed", p.stderr[-2000:])
        res = [json.loads(l) for l in open(out) if l.strip()]
        os.unlink(inp)
        os.unlink(out)
        if len(res) != len(ops):
            raise common.BuildError("reply corpus: %d observations for %d ops" % (len(res), len(ops)), "")
        return res

    def cleanup(self):
        if self.exe and os.path.exists(self.exe):
            os.unlink(self.exe)


# ------------------------------------------------------------------------------------------ data crafting
def varint(n):
    out = bytearray()
    while True:
        b = n & 0x7F
        n >>= 7
        if n:
            out.append(b | 0x80)
        else:
            out.append(b)
            return bytes(out)


def pb_exec(inner):
    """MsgExecuteContractResponse { data (1): bytes }"""
    if inner is None:
        return b""
    return b"\x0a" + varint(len(inner)) + inner


def pb_inst(addr, inner):
    """MsgInstantiateContractResponse { contract_address (1): string, data (2): bytes }"""
    out = b"\x0a" + varint(len(addr)) + addr.encode()
    if inner is not None:
        out += b"\x12" + varint(len(inner)) + inner
    return out


def b64(b):
    return base64.b64encode(b).decode()


def json_value_for(t, rng):
    n = t.rust()
    if n == "u32":
        return rng.choice([0, 7, 4294967295])
    if n == "String":
        return rng.choice(["", "txt", "a b"])
    if n == "Pt":
        return {"x": rng.randint(0, 9), "y": rng.choice(["", "yy"])}
    if n == "bool":
        return rng.random() < 0.5
    if n == "Option<u32>":
        return rng.choice([None, 3])
    if n == "Vec<String>":
        return rng.choice([[], ["a"], ["a", "b"]])
    if n == "u64":
        return 5
    raise ValueError(n)


def wrong_json_for(t):
    n = t.rust()
    return "zz" if n in ("u32", "Pt", "bool", "u64", "Option<u32>") else 17
