"""Regenerates MANIFEST.json from the table below (run: python3 -m verif.manifest)."""
import json
import os

from .common import VERIF

CLAIMED = {
    "C06": {
        "text": "Coq theorems (unbounded: every list of override names, any order/duplicates, every combination of migrate/reply/feature) about a model of entry_points.rs whose kind tables are regenerated from the Rust source on every run; the model is tied to the real macro by an exhaustive in-process expansion of all 1024 (override subset x migrate x reply x feature x generic) programs plus random ordered lists and rule-breaking programs, with a model-independent oracle on the emitted fn set, parameters and bodies.",
        "note": "Trusted: Coq kernel, translator (probe.rs + translate.py), the regex canonicalisation of entry-point bodies, syn's parser. Behaviour of msg.dispatch itself is C02/C03's; cosmwasm's entry_point attribute macro is not modelled.",
        "technique": "Coq proof over regenerated tables + exhaustive L1 expansion correspondence",
        "design_ref": "DESIGN.md section 5 / C06",
    },
}

NOT_YET = {}


def main():
    props = [json.loads(l) for l in open(os.path.join(VERIF, "properties.jsonl"))]
    checks = []
    na = []
    for p in props:
        pid = p["id"]
        if pid in CLAIMED:
            c = CLAIMED[pid]
            checks.append({
                "property_id": pid,
                "quick_cmd": "bin/check %s --tier quick" % pid,
                "thorough_cmd": "bin/check %s --tier thorough" % pid,
                "evidence_file": "/verif/evidence/%s.json" % pid,
                "replay_cmd_template": "bin/check %s --replay {path}" % pid,
                "engine": "coq+correspondence",
                "level_claimed": {"category": "proof", "text": c["text"], "design_ref": c["design_ref"]},
                "level_note": c["note"],
                "technique": c["technique"],
            })
        else:
            na.append({"property_id": pid, "reason": NOT_YET.get(pid, "check not built yet in this session (planned, see DESIGN.md section 5); not claimed until its theorem and correspondence run")})
    m = {
        "version": 1,
        "setup_cmd": "bin/setup",
        "hooks": {
            "guard": "cargo feature `verif-hook` of sylvia-derive (cfg(all(test, feature = \"verif-hook\")))",
            "enable": "SYLVIA_VERIF_HARNESS=/verif/harness/probe/probe.rs cargo test --offline --release -p sylvia-derive --features verif-hook,mt,cosmwasm_1_2 --no-run",
            "baseline_off_cmd": "cd /repo && cargo nextest run --workspace --no-fail-fast --tool-config-file pb:/w/lib/nextest.toml --profile pb --test-threads 8 --offline || cargo test --workspace --no-fail-fast --offline",
            "source_commits": ["c81e486"],
            "add_only": True,
        },
        "engines": [
            {"name": "coq+correspondence", "path": "/verif/coq, /verif/py, /verif/harness",
             "serves_properties": sorted(CLAIMED.keys()),
             "kind_free_text": "Coq 8.16.1 development (stdlib only) with GenTables.v regenerated from the Rust source by a syn-based translator on every run; hand-written executable model tied to the implementation by differential execution (L1 in-process macro expansion, L2 compiled corpus, L3 run-time library)"},
        ],
        "checks": checks,
        "not_applicable": na,
        "notes": "bin/check <id> --tier quick|thorough; evidence in /verif/evidence/<id>.json; build cache under /var/tmp/sylvia-verif (rebuilt by bin/setup).",
    }
    with open(os.path.join(VERIF, "MANIFEST.json"), "w") as f:
        json.dump(m, f, indent=1)
        f.write("\n")


if __name__ == "__main__":
    main()
