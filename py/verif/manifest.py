"""Regenerates MANIFEST.json from the table below (run: python3 -m verif.manifest)."""
import json
import os

from .common import VERIF

CLAIMED = {
    "C06": {
        "text": "Coq theorems (unbounded: every list of override names, any order/duplicates, every combination of migrate/reply/feature) about a model of entry_points.rs whose kind tables are regenerated from the Rust source on every run; the model is tied to the real macro by an exhaustive in-process expansion of all 1024 (override subset x migrate x reply x feature x generic) programs plus random ordered lists and rule-breaking programs, with a model-independent oracle on the emitted fn set, parameters and bodies.",
        "note": "Trusted: Coq kernel, translator (probe.rs + translate.py), the regex canonicalisation of entry-point bodies, syn's parser. Behaviour of msg.dispatch itself is C02/C03's; cosmwasm's entry_point attribute macro is not modelled.",
        "technique": "Coq proof over regenerated tables + exhaustive L1 expansion correspondence",
        "design_ref": "DESIGN.md section 5 / C06",
    },
}

COMMON_NOTE = ("Trusted: Coq kernel; translator (probe.rs + translate.py); Python generators, renderers (program -> Rust text / Coq term), "
               "canonicalisation and oracles; syn. Modelled not verified: serde/serde_derive/serde-json-wasm/serde-cw-value decoding rules, "
               "convert_case, rustc. ")

CLAIMED.update({
    "C01": {
        "text": "Coq theorems for every program, every method whose name is in the normal form of the property, every argument list and every codec that round-trips (Section variables): the encoded message is the one-key object named by the method with one entry per argument; decode(encode) = id; accepted names = wire names of the annotated methods of the kind. Rests on a proved casing theorem through a faithful model of convert_case's boundary splitter and serde's rename rule. Tie: L1 expansion facts of generated programs vs the Coq expansion model, L2 compiled corpus (real to_json_string/from_json) vs the Coq semantics, plus model-independent oracles.",
        "note": COMMON_NOTE + "Identifiers are ASCII, non-raw. JSON is compared as trees, not text.",
        "technique": "Coq proof (induction over the casing splitter, codec as Section variable) + L1/L2 differential correspondence",
        "design_ref": "DESIGN.md section 5 / C01",
    },
    "C02": {
        "text": "Coq theorems for all handler bodies and contexts (Section variables): dispatching the message of method m logs exactly one call, of m, with the context unchanged and the sent values in parameter order (fields bound by name), and returns that handler's outcome; no call outside the enum; struct messages likewise; ctx tuple per kind from the regenerated table. Tie: L1 dispatch arms vs model and signature; L2 echo handlers through entry points / dispatch / multitest Contract impl with random env, info, storage, Ok and Err outcomes.",
        "note": COMMON_NOTE + "Error conversion (`map_err(Into::into)`) and `to_json_binary` are observed at L1 (post-processing tag of each arm) and L2 (error text, decoded query payload), not proved.",
        "technique": "Coq proof (dispatch semantics over arbitrary handlers) + L1/L2 differential correspondence with echo handlers",
        "design_ref": "DESIGN.md section 5 / C02",
    },
    "C03": {
        "text": "Coq theorems for every contract with any number of interfaces, every JSON document repeating no key: the contract-level decoder accepts iff exactly one part accepts and yields that part's value; every other document gives the documented error class (total function); encoding is the part's; the entry point only runs handlers of the owning part. The published tables are proved to be the sorted serde wire names. Documents repeating a key are a known finding with a proved witness. Tie: L2 from_json of well-formed and 15 kinds of single-fault documents into the wrapper and every part, L1 wrapper facts.",
        "note": COMMON_NOTE + "Hypothesis dec_collapse (argument decoding is insensitive to member order for documents repeating no key) is a Section hypothesis validated by L2. Disjointness of the parts' names is the conclusion of C05.",
        "technique": "Coq proof (iff over all documents, BTreeMap buffering modelled) + L2 differential correspondence on malformed-document streams",
        "design_ref": "DESIGN.md section 5 / C03",
    },
    "C04": {
        "text": "Coq theorem with no hypothesis on program, tables or document: whatever JSON tree reaches the entry point of kind k, every handler in the call log is a method annotated k (contract or declared interface); kind names/accessors/message types are injective in the kind (regenerated tables). Tie: L2 every exec/query/sudo message of the corpus sent to the entry points and multitest Contract methods of the other kinds; L1 which tables and message types each wrapper uses.",
        "note": COMMON_NOTE + "instantiate/migrate/reply entry points take struct messages / Reply and are covered by the C06 forwarding theorems and L2 struct calls.",
        "technique": "Coq proof (call-log containment for arbitrary documents) + L2 cross-kind differential runs",
        "design_ref": "DESIGN.md section 5 / C04",
    },
    "C05": {
        "text": "Coq theorems about a step-for-step model of sylvia::utils::assert_no_intersection (index cursors, out-of-range and unreachable!() as a distinct Stuck outcome, explicit fuel): for any number of strictly sorted lists of any lengths it panics iff two lists share a string, finishes otherwise, and is never stuck; the published table of each part is proved sorted and equal to the set of serde wire names. Tie: the real function run on all tuples of <=3 (thorough <=4) sorted lists over a 4-string alphabet plus random sorted/unsorted tuples vs the model; L1/L2 tables vs serialised keys; compiled colliding / non-colliding contract pairs.",
        "note": COMMON_NOTE + "rustc's const evaluation of the check is trusted (a panic in the const block is a compile error); Vec::sort is assumed to sort by str::cmp.",
        "technique": "Coq proof (invariant over the k-way merge) + exhaustive small-space and random L3 correspondence + L2 tables",
        "design_ref": "DESIGN.md section 5 / C05",
    },
})

CLAIMED.update({
    "C10": {
        "text": "Coq theorems: (end to end, for any codec that round-trips, any handler bodies, any parts with disjoint names) the body a helper builds for method m with arguments vals, sent to the target's entry point of that kind, logs exactly the call m(vals); executor builder = execute message with the handle's address, the body and the funds set last, for every sequence of with_funds (induction); instantiate builder = instantiate/instantiate2 message with code id, message, last admin/label/funds, empty label when unset, for every sequence of setters (induction). Tie: L3 the real helpers (handle typed by contract, contract-as-interface, dyn Interface, borrowed querier) with random arguments, the built body delivered to the target's real execute/query entry points; builders vs the Coq model.",
        "note": COMMON_NOTE + "The builders are hand-modelled (tied by L3); the generated helper methods are exercised on a fixed target contract with an interface, not on generated programs (those are C01-C03's). WasmMsg's own JSON layout is cosmwasm-std's.",
        "technique": "Coq proof (composition of encode/wrapper/dispatch theorems; induction over builder steps) + L3 differential runs delivering built messages to real entry points",
        "design_ref": "DESIGN.md section 5 / C10",
    },
    "C11": {
        "text": "Coq theorems over responses with any number of sub-messages of the CosmosMsg kinds of the harness feature set: into_response fails iff some sub-message is custom-typed, and otherwise returns the response unchanged field for field (sub-messages in order with id, payload, gas limit, reply trigger; attributes; events; data); induction through collect (first error wins, no partial response). The arm table of IntoMsg::into_msg and the field map of the rebuilt SubMsg are regenerated from sylvia/src/into_response.rs on every run. Tie: L3 real IntoResponse on random responses vs model and oracle; L1 which interface arms are bridged vs the custom(..) markers.",
        "note": COMMON_NOTE + "The list of CosmosMsg variants is cosmwasm-std's (features staking, stargate, cosmwasm_2_0), assumed and exercised by L3. Handlers seeing the same storage/env/sender under a bridged ctx is observed at L1 (into_empty placement) only.",
        "technique": "Coq proof over tables regenerated from the source (translator) + L3 differential correspondence",
        "design_ref": "DESIGN.md section 5 / C11",
    },
    "C20": {
        "text": "Coq theorems over the serde description of Remote regenerated from sylvia/src/types.rs (field list, serde attributes, schema name): the encoding is the object with the single member addr for every type parameter and both ownerships; decode(encode) gives the address back at any type parameter; schema name is Remote. Tie: L3 the real Remote with five type parameters (contract, dyn Interface, dyn Interface with associated type, Empty, ()), owned and borrowed, arbitrary address strings, two JSON back ends, malformed documents, schemas compared across type parameters.",
        "note": COMMON_NOTE + "Addr/Cow serialising as a plain string is cosmwasm-std/serde behaviour (assumed, exercised by L3).",
        "technique": "Coq proof over a struct description regenerated from the source (translator) + L3 differential correspondence",
        "design_ref": "DESIGN.md section 5 / C20",
    },
})

CLAIMED.update({
    "C07": {
        "text": "Coq theorems about the real table builder (the accumulating fold of as_reply_data with find / excludes / merge), for every list of reply methods whose claims are compatible (any number of methods, any sharing of handler names, any declaration order): a fold invariant shows each entry holds exactly the methods claiming its name, so the method run on success is THE method declared for success or always under that name, on failure THE one declared for error or always, with gas used in the context, events and message responses only for a success method, error text / full result as declared; no method for the outcome = pass-through of events and data resp. that error; unknown id = error. Envelope parsers, JSON decoder and handlers are Section variables. Tie: L1 real expansions of generated tables vs the table model; L2 compiled echo contracts driven through sv::dispatch_reply and the reply entry point.",
        "note": COMMON_NOTE + "Handler-name constants use convert_case's UPPER_SNAKE (modelled, validated at L1). cw_utils' protobuf parsing is a dependency (Section variable; exercised with real bytes at L2).",
        "technique": "Coq proof (invariant of the table fold, refinement to a declarative grouping) + L1/L2 differential correspondence",
        "design_ref": "DESIGN.md section 5 / C07",
    },
    "C08": {
        "text": "Coq theorems: ids are positions in the table and entries have pairwise distinct id constants, so names with distinct constants get distinct ids and an id leads back to its own entry; the trigger is Always / Success / Error exactly according to which outcomes have a method (total decision lemma); the builder on an existing sub-message changes only id, trigger and payload (every other field, the gas limit included, and the message are kept), on wasm/cosmos messages it wraps the message with no gas limit; the payload encoded by the builder decodes to equal values for any JSON printer/parser pair that round-trips, a raw payload byte for byte. Tie: L1 builder facts; L2 every builder on the three receivers, then the eventual reply dispatched.",
        "note": COMMON_NOTE + "Handler names whose UPPER_SNAKE images coincide (handler1 / handler_1) are outside the statement's hypothesis (distinct constants); see DESIGN section 6 (D6).",
        "technique": "Coq proof (table positions, decision lemma, field-preservation, codec round trip) + L1/L2 differential correspondence",
        "design_ref": "DESIGN.md section 5 / C08",
    },
    "C09": {
        "text": "Coq theorems for arbitrary envelope parsers and JSON decoder (Section variables, hence arbitrary payload types): the decision table of the six data modes over data absent / envelope undecodable / inner data absent / JSON undecodable / present; a failing extraction makes dispatch return the error without any handler call, a successful one is exactly one call whose first argument is the extracted value; without a marker there is no data argument. Tie: L1 which extraction block each success arm carries; L2 real protobuf envelopes built and corrupted by the harness, echoed data parameter or error class and the handler's call log.",
        "note": COMMON_NOTE + "`opt` with an envelope present but inner data absent is a missing-data error in the code and is stated so. cw_utils' parsers are dependencies.",
        "technique": "Coq proof (decision table over abstract parsers) + L2 differential correspondence with crafted envelopes",
        "design_ref": "DESIGN.md section 5 / C09",
    },
})

CLAIMED.update({
    "C13": {
        "text": "Coq theorems about a model of StripInput (fold.rs) over items abstracted to positioned attributes plus an opaque remainder: erasing attributes commutes with stripping (nothing but attributes changes); at item and method level exactly the framework's own attributes (two-segment sv:: paths recognised by the regenerated table) are removed, order kept; parameter attributes are removed on handler methods and only there (helper methods are returned unchanged); stripping is idempotent. Tie: every item annotated with contract/interface/entry_points in sylvia/tests, sylvia/src and examples (located with syn) and generated decorated impl blocks/traits are expanded by the real macro and the re-emitted item is compared token for token outside attributes and attribute by attribute; determinism: each input expanded twice in one process and again in other processes (output hash).",
        "note": COMMON_NOTE + "Partial: determinism of the real macro process cannot be a theorem about a Gallina function; it is decided by the correspondence runs only. A trailing comma of a handler's parameter list is treated as punctuation.",
        "technique": "Coq proof (algebraic laws of the stripping model over a regenerated attribute table) + L1 differential correspondence on repository sources and generated inputs",
        "design_ref": "DESIGN.md section 5 / C13",
    },
    "C15": {
        "text": "Coq theorems about the generic-usage visitor and filter_wheres as modelled from MsgVariants::new: a parameter is carried by the message type of kind k iff it is declared and occurs (directly or nested at any depth) in an argument type, or for queries the response type, of a handler of kind k; each once; used ++ unused is a permutation of the declared parameters; a where-predicate is kept iff every parameter it mentions is used; the generated type and its dispatch function use exactly these lists. Tie: L1 generic parameter lists, where clauses and dispatch parameters of real expansions vs model and vs occurrence computed from the signature; L2 generic corpus programs instantiated at concrete types and driven through encode/decode/dispatch.",
        "note": COMMON_NOTE + "`T::Assoc` does not count as an occurrence of T; bounds must be in the where clause (inline bounds do not compile with the macro): domain restrictions stated in DESIGN.",
        "technique": "Coq proof (induction over the visitor fold) + L1/L2 differential correspondence",
        "design_ref": "DESIGN.md section 5 / C15",
    },
    "C17": {
        "text": "Coq theorems through the real attribute-parsing fold (parse_attrs over the regenerated attribute and kind tables): the generated type of kind k carries exactly the sv::msg_attr contents forwarded to k, in order, and no other kind's; a variant carries exactly the sv::attr contents of its own handler; a field carries the attributes written on its argument; the serde(default) marker of a field description is that attribute, a missing field without it is rejected and with it takes the default. Tie: L1 attribute lists of every generated type/variant/field vs model and program; L2 documents lacking one field accepted iff default or Option.",
        "note": COMMON_NOTE + "Only serde(default) is given a semantics in the model; other forwarded attributes are checked for placement (L1) not effect.",
        "technique": "Coq proof (per-attribute contribution lemma through the parsing fold) + L1/L2 differential correspondence",
        "design_ref": "DESIGN.md section 5 / C17",
    },
})

CLAIMED.update({
    "C14": {
        "text": "Coq theorems over Permutation: permuting the methods leaves the published name list equal (sort is canonical on permutations), the variants a permutation, and encoding / decoding / dispatch target unchanged (lookup by a duplicate-free key); permuting the override attributes leaves the entry-point set unchanged; for replies: acceptance of the claims is permutation-invariant (symmetric exclusion), both orders have entries for the same handler names, and the method answering each outcome of each name is the same (corollary of the table-fold refinement on both sides). Tie: L1 every generated program and random permutations of its methods and repeatable attributes, order-free observations compared between twins; reply tables and entry points likewise.",
        "note": COMMON_NOTE + "Not claimed: order of variants inside an enum, of type parameters (first-use order), of names inside error texts, numeric reply ids. Interface-attribute order is observed at L1 only.",
        "technique": "Coq proof (induction over Permutation; corollaries of the reply-table refinement) + L1 metamorphic correspondence on permuted twins",
        "design_ref": "DESIGN.md section 5 / C14",
    },
    "C18": {
        "text": "Coq theorems: each documented rule-breaking shape yields a diagnostic in the expansion model (no / several instantiate, several migrate, missing or parameterised constructor, instantiate / migrate / generics / missing Error in an interface, unknown kind / override / feature arguments, wherever the attribute stands), and for reply tables a characterisation for ALL tables: the real fold reports no diagnostic iff every claim is ok (own parameters well placed, no earlier claim of the name excludes its outcome, payload signature and raw marker equal to the first claim's) - proved through the fold invariant, which also gives valid => accepted. Tie: L1 valid programs and their single rule-breaking edits, valid and invalid reply tables vs model and vs the planted edit; rustc batch of invalid programs: error text and the line pointed at.",
        "note": COMMON_NOTE + "Partial: message text and file:line are rendered by rustc from spans; the model records the diagnostic kind. The compiled batch checks text fragment and line for 13 rules.",
        "technique": "Coq proof (diagnostic-accumulating fold characterised declaratively) + L1 mutation correspondence + real rustc diagnostics batch",
        "design_ref": "DESIGN.md section 5 / C18",
    },
})

CLAIMED.update({
    "C16": {
        "text": "Coq theorems: every entry of a part's response table is the wire name of a query handler of that part paired with the type the handler returns on success or the type given with resp= (Self-stripped), and every query handler has its entry; the contract-level table contains an entry iff some part's table does (flatten over the parts) and, names being disjoint between parts, lists every sendable name once. Tie: L1 the returns(T) recorded per variant, the flatten over the parts and the any_of over the parts in real expansions vs model and signature; L2 response_schemas() of every part and of the contract-level query vs cosmwasm_schema::schema_for!(declared type) computed in the same binary, names vs serialised names, contract-level schema anyOf vs parts (including a contract whose parts are all generic).",
        "note": COMMON_NOTE + "Partial: what schemars/cosmwasm-schema make of a type is the dependency's (a Section-free abstraction: the model speaks about which TYPE is named); the hidden generic-carrier entry `__phantom` is not a sendable name and is ignored.",
        "technique": "Coq proof (table entries characterised through the expansion model) + L1/L2 differential correspondence",
        "design_ref": "DESIGN.md section 5 / C16",
    },
    "C19": {
        "text": "Coq theorems computed over the token lists of every quote!/parse_quote! body of sylvia-derive/src, regenerated on every run (262 templates): no template writes a path rooted at the framework or one of its re-exported dependencies literally (each such path starts at an interpolation hole), nor a string naming such a crate; the type parameters a template introduces in the scope of user parameters are not conventional names (no single upper-case letter, no single capitalised word). Tie: real compilation, with the framework imported only as `fw` and no direct dependency on its re-exports, of programs covering the generation branches (all kinds, replies with partial coverage and every data mode, legacy reply, custom chain types with a bridged interface, overridden entry point, multitest helpers, entry points) and of a generic contract + interface whose parameter is named by each letter / conventional word; every L2 corpus of the other checks is compiled through a renamed dependency as well.",
        "note": COMMON_NOTE + "Partial: whether rustc accepts the expansion is rustc's name resolution (decided by the compiled batch). `Error` next to an interface's associated types is the interface's own mandatory type. A user parameter named like a generated ITEM (e.g. Api, ExecMsg) is outside the property (helper type parameters and crate name).",
        "technique": "Coq proof by computation over templates regenerated from the source (translator) + real rustc batch under a renamed dependency",
        "design_ref": "DESIGN.md section 5 / C19",
    },
})

CLAIMED.update({
    "C12": {
        "text": "Coq theorems with the chain as an arbitrary step function: every proxy call performs exactly the chain operation of the corresponding raw JSON call - same operation kind, sender, target, message, funds, label (default \"Contract\"), admin and salt, for every sequence of option setters (last one wins; induction) - hence for any history the proxy run and the raw run end in equal chains with equal outputs (induction over the history); an error of the contract's own type surfaces unchanged. Tie: compiled echo contracts; random histories (instantiate with options, exec with funds, query, sudo, migrate, failing handlers, chain-level failures) issued through the generated proxies on one cw-multi-test chain and as raw JSON built from the method signatures on a second identically seeded chain; results and full state (storage dump, contract info, balances) compared after every step.",
        "note": COMMON_NOTE + "Partial: behaviour inside cw-multi-test cannot be exhibited by the theorem (the chain is a parameter); the differential run on two real chains carries it. The message a proxy sends is C01's encoding.",
        "technique": "Coq proof (operation equality; induction over setter sequences and histories, chain as a parameter) + L2 differential histories on two real test chains",
        "design_ref": "DESIGN.md section 5 / C12",
    },
})

NOT_YET = {}


def main():
    props = [json.loads(l) for l in open(os.path.join(VERIF, "properties.jsonl"))]
    checks = []
    na = []
    for p in props:
        pid = p["id"]
        if pid in CLAIMED:
            c = CLAIMED[pid]
            checks.append({
                "property_id": pid,
                "quick_cmd": "bin/check %s --tier quick" % pid,
                "thorough_cmd": "bin/check %s --tier thorough" % pid,
                "evidence_file": "/verif/evidence/%s.json" % pid,
                "replay_cmd_template": "bin/check %s --replay {path}" % pid,
                "engine": "coq+correspondence",
                "level_claimed": {"category": "proof", "text": c["text"], "design_ref": c["design_ref"]},
                "level_note": c["note"],
                "technique": c["technique"],
            })
        else:
            na.append({"property_id": pid, "reason": NOT_YET.get(pid, "check not built yet in this session (planned, see DESIGN.md section 5); not claimed until its theorem and correspondence run")})
    m = {
        "version": 1,
        "setup_cmd": "bin/setup",
        "hooks": {
            "guard": "cargo feature `verif-hook` of sylvia-derive (cfg(all(test, feature = \"verif-hook\")))",
            "enable": "SYLVIA_VERIF_HARNESS=/verif/harness/probe/probe.rs cargo test --offline --release -p sylvia-derive --features verif-hook,mt,cosmwasm_1_2 --no-run",
            "baseline_off_cmd": "cd /repo && cargo nextest run --workspace --no-fail-fast --tool-config-file pb:/w/lib/nextest.toml --profile pb --test-threads 8 --offline || cargo test --workspace --no-fail-fast --offline",
            "source_commits": ["c81e486"],
            "add_only": True,
        },
        "engines": [
            {"name": "coq+correspondence", "path": "/verif/coq, /verif/py, /verif/harness",
             "serves_properties": sorted(CLAIMED.keys()),
             "kind_free_text": "Coq 8.16.1 development (stdlib only) with GenTables.v regenerated from the Rust source by a syn-based translator on every run; hand-written executable model tied to the implementation by differential execution (L1 in-process macro expansion, L2 compiled corpus, L3 run-time library)"},
        ],
        "checks": checks,
        "not_applicable": na,
        "notes": "bin/check <id> --tier quick|thorough; evidence in /verif/evidence/<id>.json; build cache under /var/tmp/sylvia-verif (rebuilt by bin/setup).",
    }
    with open(os.path.join(VERIF, "MANIFEST.json"), "w") as f:
        json.dump(m, f, indent=1)
        f.write("\n")


if __name__ == "__main__":
    main()
