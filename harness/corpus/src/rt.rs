// Run-time support shared by all generated corpus programs: echo handlers and observation helpers.
#![allow(dead_code)]
use serde_json::{json, Value};
use svfw::cw_std::testing::{message_info, mock_env, MockApi, MockQuerier, MockStorage};
use svfw::cw_std::{
    Addr, Binary, Coin, CustomQuery, Deps, DepsMut, Empty, Env, MessageInfo, OwnedDeps, Response, StdError,
    StdResult, Storage,
};

pub trait Data:
    serde::Serialize + serde::de::DeserializeOwned + Clone + std::fmt::Debug + PartialEq + schemars::JsonSchema + 'static
{
}
impl<T> Data for T where
    T: serde::Serialize + serde::de::DeserializeOwned + Clone + std::fmt::Debug + PartialEq + schemars::JsonSchema + 'static
{
}

#[derive(thiserror::Error, Debug, PartialEq)]
pub enum ContractError {
    #[error("{0}")]
    Std(#[from] StdError),
    #[error("custom failure in {0}")]
    Named(String),
}

#[derive(serde::Serialize, serde::Deserialize, Clone, Debug, PartialEq, schemars::JsonSchema)]
pub struct EchoResp {
    pub handler: String,
    pub kind: String,
    pub args: Vec<String>,
    pub height: u64,
    pub contract: String,
    pub calls_seen: u64,
}

pub fn j<T: serde::Serialize>(v: &T) -> String {
    serde_json::to_string(v).unwrap_or_else(|e| format!("<unserializable {}>", e))
}

fn read_log(storage: &dyn Storage) -> Vec<String> {
    storage
        .get(b"log")
        .map(|b| serde_json::from_slice(&b).unwrap_or_default())
        .unwrap_or_default()
}

/// What the fail cell asks the handler to do.
pub enum Fail {
    No,
    Std,
    Custom,
}

pub fn fail_mode(storage: &dyn Storage) -> Fail {
    match storage.get(b"fail").as_deref() {
        Some(b"std") => Fail::Std,
        Some(b"custom") => Fail::Custom,
        _ => Fail::No,
    }
}

/// Echo for handlers holding `DepsMut`: logs the call in the caller's storage and reports
/// everything the handler saw.
pub fn echo_mut<Q: CustomQuery, C>(
    name: &str,
    kind: &str,
    deps: DepsMut<Q>,
    env: &Env,
    info: Option<&MessageInfo>,
    args: Vec<String>,
) -> StdResult<Response<C>> {
    let mut log = read_log(deps.storage);
    log.push(name.to_string());
    deps.storage.set(b"log", &serde_json::to_vec(&log).unwrap());
    if let Fail::Std = fail_mode(deps.storage) {
        return Err(StdError::generic_err(format!("handler {} failed", name)));
    }
    if args.iter().any(|a| a.contains("__fail__")) {
        return Err(StdError::generic_err(format!("handler {} failed", name)));
    }
    let seen = deps.storage.get(b"cell").map(|b| b.len() as u64).unwrap_or(0);
    let mut cell = deps.storage.get(b"cell").unwrap_or_default();
    cell.push(b'x');
    deps.storage.set(b"cell", &cell);
    let api_ok = deps.api.addr_validate(env.contract.address.as_str()).is_ok();
    let mut r = Response::new()
        .add_attribute("handler", name)
        .add_attribute("kind", kind)
        .add_attribute("args", j(&args))
        .add_attribute("height", env.block.height.to_string())
        .add_attribute("contract", env.contract.address.to_string())
        .add_attribute("cell_seen", seen.to_string())
        .add_attribute("api_ok", api_ok.to_string());
    if let Some(info) = info {
        r = r.add_attribute("sender", info.sender.to_string()).add_attribute("funds", j(&info.funds));
    }
    // every other call also returns data (what reaches the caller as response data is part of the outcome)
    if seen % 2 == 1 {
        r = r.set_data(format!("data-of-{}-{}", name, seen).into_bytes());
    }
    Ok(r)
}

pub fn echo_query<Q: CustomQuery>(name: &str, deps: Deps<Q>, env: &Env, args: Vec<String>) -> StdResult<EchoResp> {
    if let Fail::Std = fail_mode(deps.storage) {
        return Err(StdError::generic_err(format!("handler {} failed", name)));
    }
    if args.iter().any(|a| a.contains("__fail__")) {
        return Err(StdError::generic_err(format!("handler {} failed", name)));
    }
    Ok(EchoResp {
        handler: name.to_string(),
        kind: "query".to_string(),
        args,
        height: env.block.height,
        contract: env.contract.address.to_string(),
        calls_seen: deps.storage.get(b"cell").map(|b| b.len() as u64).unwrap_or(0),
    })
}

pub fn custom_fail(storage: &dyn Storage) -> bool {
    matches!(fail_mode(storage), Fail::Custom)
}

// ---------------------------------------------------------------- observation helpers
pub type MockDeps<Q = Empty> = OwnedDeps<MockStorage, MockApi, MockQuerier<Q>, Q>;

pub fn fresh_deps() -> MockDeps {
    svfw::cw_std::testing::mock_dependencies()
}

pub fn setup_env(op: &Value) -> (Env, MessageInfo) {
    let mut env = mock_env();
    if let Some(h) = op["height"].as_u64() {
        env.block.height = h;
    }
    let sender = Addr::unchecked(op["sender"].as_str().unwrap_or("sender0"));
    let funds: Vec<Coin> = serde_json::from_value(op["funds"].clone()).unwrap_or_default();
    (env, message_info(&sender, &funds))
}

pub fn prime_storage(storage: &mut dyn Storage, op: &Value) {
    if let Some(f) = op["fail"].as_str() {
        storage.set(b"fail", f.as_bytes());
    }
    if let Some(n) = op["cell"].as_u64() {
        if n > 0 {
            storage.set(b"cell", &vec![b'x'; n as usize]);
        }
    }
}

pub fn storage_obs(storage: &dyn Storage) -> Value {
    json!({
        "log": read_log(storage),
        "cell": storage.get(b"cell").map(|b| b.len()).unwrap_or(0),
    })
}

pub fn resp_obs<C: serde::Serialize>(r: &Response<C>) -> Value {
    let attrs: serde_json::Map<String, Value> =
        r.attributes.iter().map(|a| (a.key.clone(), Value::String(a.value.clone()))).collect();
    json!({
        "attrs": attrs,
        "n_messages": r.messages.len(),
        "messages": serde_json::to_value(&r.messages).unwrap_or(Value::Null),
        "events": serde_json::to_value(&r.events).unwrap_or(Value::Null),
        "data": r.data.as_ref().map(|d| d.to_base64()),
    })
}

pub fn bin_obs(b: &Binary) -> Value {
    match serde_json::from_slice::<Value>(b.as_slice()) {
        Ok(v) => json!({"query_json": v}),
        Err(_) => json!({"query_raw": b.to_base64()}),
    }
}

pub fn arg<T: serde::de::DeserializeOwned>(args: &Value, i: usize) -> Result<T, String> {
    serde_json::from_value(args[i].clone()).map_err(|e| format!("bad arg {}: {}", i, e))
}

// ---------------------------------------------------------------- reply echo
#[derive(serde::Serialize, serde::Deserialize, Clone, Debug, PartialEq, schemars::JsonSchema)]
pub struct Pt {
    pub x: u32,
    pub y: String,
}

/// Echo for reply handlers: records who ran and everything it was handed.
pub fn echo_reply<Q: CustomQuery, C>(
    name: &str,
    ctx: svfw::ctx::ReplyCtx<Q>,
    first: Option<String>,
    payload: Vec<String>,
) -> StdResult<Response<C>> {
    let mut log = read_log(ctx.deps.storage);
    log.push(name.to_string());
    ctx.deps.storage.set(b"log", &serde_json::to_vec(&log).unwrap());
    if let Fail::Std = fail_mode(ctx.deps.storage) {
        return Err(StdError::generic_err(format!("handler {} failed", name)));
    }
    Ok(Response::new()
        .add_attribute("handler", name)
        .add_attribute("gas_used", ctx.gas_used.to_string())
        .add_attribute("events", j(&ctx.events))
        .add_attribute("msg_responses", j(&ctx.msg_responses))
        .add_attribute("first", first.unwrap_or_else(|| "<none>".to_string()))
        .add_attribute("payload", j(&payload))
        .add_attribute("height", ctx.env.block.height.to_string()))
}

pub fn reply_from(op: &Value) -> svfw::cw_std::Reply {
    use svfw::cw_std::{Event, MsgResponse, Reply, SubMsgResponse, SubMsgResult};
    let result = if let Some(e) = op["result"]["err"].as_str() {
        SubMsgResult::Err(e.to_string())
    } else {
        let ok = &op["result"]["ok"];
        let events: Vec<Event> = serde_json::from_value(ok["events"].clone()).unwrap_or_default();
        let msg_responses: Vec<MsgResponse> = serde_json::from_value(ok["msg_responses"].clone()).unwrap_or_default();
        let data = ok["data"].as_str().map(|s| Binary::from_base64(s).unwrap_or_default());
        #[allow(deprecated)]
        SubMsgResult::Ok(SubMsgResponse { events, data, msg_responses })
    };
    Reply {
        id: op["id"].as_u64().unwrap_or(0),
        payload: Binary::from_base64(op["payload"].as_str().unwrap_or("")).unwrap_or_default(),
        gas_used: op["gas_used"].as_u64().unwrap_or(0),
        result,
    }
}

pub fn inst_obs(d: &svfw::cw_utils::MsgInstantiateContractResponse) -> String {
    format!("{}|{}", d.contract_address, d.data.as_ref().map(|b| b.to_base64()).unwrap_or_else(|| "none".into()))
}

// ---------------------------------------------------------------- multitest observation helpers
pub fn app_resp_obs(r: &svfw::cw_multi_test::AppResponse) -> Value {
    json!({
        "events": serde_json::to_value(&r.events).unwrap_or(Value::Null),
        "data": r.data.as_ref().map(|d| d.to_base64()),
    })
}
