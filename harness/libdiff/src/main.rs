// L3 harness: calls sylvia's run-time library on operations read from a file (one JSON object per
// line) and prints one JSON observation per line. The framework is imported under the name `svfw`.
use serde_json::{json, Value};
use std::io::{BufRead, Write};
use std::panic::{catch_unwind, AssertUnwindSafe};
use svfw::cw_std::{Addr, Binary, Coin, Empty, Response, StdError};
use svfw::into_response::IntoResponse;
use svfw::types::Remote;

#[derive(serde::Serialize, serde::Deserialize, Clone, Debug, PartialEq, schemars::JsonSchema)]
pub struct MyMsg {
    pub x: u32,
}
impl svfw::cw_std::CustomMsg for MyMsg {}

#[derive(serde::Serialize, serde::Deserialize, Clone, Debug, PartialEq, schemars::JsonSchema)]
pub struct Echo {
    pub handler: String,
    pub args: Vec<String>,
}

fn js<T: serde::Serialize>(v: &T) -> String {
    serde_json::to_string(v).unwrap_or_default()
}

pub mod iface {
    use super::Echo;
    use svfw::ctx::{ExecCtx, QueryCtx};
    use svfw::cw_std::{Response, StdError};

    #[svfw::interface]
    #[sv::custom(msg=svfw::cw_std::Empty, query=svfw::cw_std::Empty)]
    pub trait Plain {
        type Error: From<StdError>;
        #[sv::msg(exec)]
        fn poke(&self, ctx: ExecCtx, n: u32) -> Result<Response, Self::Error>;
        #[sv::msg(exec)]
        fn poke2(&self, ctx: ExecCtx, a: String, b: String) -> Result<Response, Self::Error>;
        // names that do not survive snake -> UpperCamel -> snake: the wire name is serde's (`stage2_poke`, `peek_a_b`)
        #[sv::msg(exec)]
        fn stage_2_poke(&self, ctx: ExecCtx, n: u32) -> Result<Response, Self::Error>;
        // ten same-typed arguments: two-digit positions (a permutation of the arguments would still compile)
        #[sv::msg(exec)]
        #[allow(clippy::too_many_arguments)]
        fn wide_poke(&self, ctx: ExecCtx, p1: u32, p2: u32, p3: u32, p4: u32, p5: u32, p6: u32, p7: u32, p8: u32, p9: u32, p10: u32) -> Result<Response, Self::Error>;
        #[sv::msg(query)]
        fn peek_a_b(&self, ctx: QueryCtx, idx: u32) -> Result<Echo, Self::Error>;
        #[sv::msg(query)]
        fn peek(&self, ctx: QueryCtx) -> Result<Echo, Self::Error>;
        #[sv::msg(query)]
        fn peek_at(&self, ctx: QueryCtx, idx: u32, tag: String) -> Result<Echo, Self::Error>;
    }
}

pub mod iface_assoc {
    use svfw::ctx::{ExecCtx, QueryCtx};
    use svfw::cw_std::{Response, StdError};

    #[svfw::interface]
    #[sv::custom(msg=svfw::cw_std::Empty, query=svfw::cw_std::Empty)]
    pub trait WithAssoc {
        type Error: From<StdError>;
        type Item: serde::Serialize + serde::de::DeserializeOwned + std::fmt::Debug;
        #[sv::msg(exec)]
        fn put(&self, ctx: ExecCtx, item: Self::Item) -> Result<Response, Self::Error>;
        #[sv::msg(query)]
        fn get(&self, ctx: QueryCtx) -> Result<Self::Item, Self::Error>;
    }
}

pub mod contract {
    use super::{js, Echo};
    use svfw::ctx::{ExecCtx, InstantiateCtx, QueryCtx};
    use svfw::cw_std::{Response, StdError, StdResult};

    pub struct Ctr;

    fn echo(handler: &str, args: Vec<String>, ctx: &ExecCtx) -> StdResult<Response> {
        Ok(Response::new()
            .add_attribute("handler", handler)
            .add_attribute("args", js(&args))
            .add_attribute("sender", ctx.info.sender.to_string())
            .add_attribute("funds", js(&ctx.info.funds)))
    }

    #[svfw::entry_points]
    #[svfw::contract]
    #[sv::messages(crate::iface as Plain)]
    impl Ctr {
        pub const fn new() -> Self {
            Self
        }
        #[sv::msg(instantiate)]
        pub fn instantiate(&self, _ctx: InstantiateCtx, start: u32, name: String) -> StdResult<Response> {
            Ok(Response::new().add_attribute("handler", "instantiate").add_attribute("args", js(&vec![js(&start), js(&name)])))
        }
        #[sv::msg(exec)]
        pub fn bump(&self, ctx: ExecCtx, by: u32, memo: Option<String>) -> StdResult<Response> {
            echo("bump", vec![js(&by), js(&memo)], &ctx)
        }
        #[sv::msg(exec)]
        pub fn set_owner(&self, ctx: ExecCtx, owner: String) -> StdResult<Response> {
            echo("set_owner", vec![js(&owner)], &ctx)
        }
        #[sv::msg(exec)]
        pub fn foo1_bar(&self, ctx: ExecCtx, a: u64, b: u64) -> StdResult<Response> {
            echo("foo1_bar", vec![js(&a), js(&b)], &ctx)
        }
        #[sv::msg(exec)]
        #[allow(clippy::too_many_arguments)]
        pub fn wide(&self, ctx: ExecCtx, w1: u32, w2: u32, w3: u32, w4: u32, w5: u32, w6: u32, w7: u32, w8: u32, w9: u32, w10: u32, w11: u32) -> StdResult<Response> {
            echo("wide", vec![js(&w1), js(&w2), js(&w3), js(&w4), js(&w5), js(&w6), js(&w7), js(&w8), js(&w9), js(&w10), js(&w11)], &ctx)
        }
        #[sv::msg(query)]
        pub fn value(&self, _ctx: QueryCtx) -> StdResult<Echo> {
            Ok(Echo { handler: "value".into(), args: vec![] })
        }
        #[sv::msg(query)]
        pub fn sum(&self, _ctx: QueryCtx, a: u32, b: u32) -> StdResult<Echo> {
            Ok(Echo { handler: "sum".into(), args: vec![js(&a), js(&b)] })
        }
    }

    impl super::iface::Plain for Ctr {
        type Error = StdError;
        fn poke(&self, ctx: ExecCtx, n: u32) -> StdResult<Response> {
            echo("poke", vec![js(&n)], &ctx)
        }
        fn poke2(&self, ctx: ExecCtx, a: String, b: String) -> StdResult<Response> {
            echo("poke2", vec![js(&a), js(&b)], &ctx)
        }
        fn peek(&self, _ctx: QueryCtx) -> StdResult<Echo> {
            Ok(Echo { handler: "peek".into(), args: vec![] })
        }
        fn stage_2_poke(&self, ctx: ExecCtx, n: u32) -> StdResult<Response> {
            echo("stage_2_poke", vec![js(&n)], &ctx)
        }
        fn wide_poke(&self, ctx: ExecCtx, p1: u32, p2: u32, p3: u32, p4: u32, p5: u32, p6: u32, p7: u32, p8: u32, p9: u32, p10: u32) -> StdResult<Response> {
            echo("wide_poke", vec![js(&p1), js(&p2), js(&p3), js(&p4), js(&p5), js(&p6), js(&p7), js(&p8), js(&p9), js(&p10)], &ctx)
        }
        fn peek_a_b(&self, _ctx: QueryCtx, idx: u32) -> StdResult<Echo> {
            Ok(Echo { handler: "peek_a_b".into(), args: vec![js(&idx)] })
        }
        fn peek_at(&self, _ctx: QueryCtx, idx: u32, tag: String) -> StdResult<Echo> {
            Ok(Echo { handler: "peek_at".into(), args: vec![js(&idx), js(&tag)] })
        }
    }
}

/// Sends the body of a built WasmMsg::Execute to the target's real `execute` entry point.
fn deliver(msg: &svfw::cw_std::WasmMsg) -> Value {
    use svfw::cw_std::testing::{message_info, mock_dependencies, mock_env};
    match msg {
        svfw::cw_std::WasmMsg::Execute { contract_addr, msg, funds } => {
            let mut deps = mock_dependencies();
            let info = message_info(&Addr::unchecked("caller"), funds);
            let decoded = svfw::cw_std::from_json::<contract::sv::ContractExecMsg>(msg.as_slice());
            match decoded {
                Err(e) => json!({"contract_addr": contract_addr, "funds": funds, "body": String::from_utf8_lossy(msg.as_slice()), "decode_err": e.to_string()}),
                Ok(m) => {
                    let r = contract::entry_points::execute(deps.as_mut(), mock_env(), info, m);
                    match r {
                        Ok(resp) => {
                            let attrs: serde_json::Map<String, Value> = resp.attributes.iter().map(|a| (a.key.clone(), Value::String(a.value.clone()))).collect();
                            json!({"contract_addr": contract_addr, "funds": funds, "body": String::from_utf8_lossy(msg.as_slice()), "attrs": attrs})
                        }
                        Err(e) => json!({"contract_addr": contract_addr, "funds": funds, "err": e.to_string()}),
                    }
                }
            }
        }
        other => json!({"not_execute": serde_json::to_value(other).unwrap()}),
    }
}

fn remote_exec(v: &Value) -> Value {
    let addr = Addr::unchecked(v["addr"].as_str().unwrap_or(""));
    let funds: Vec<Value> = v["funds_steps"].as_array().cloned().unwrap_or_default();
    let args = &v["args"];
    let method = v["method"].as_str().unwrap_or("");
    let s = |i: usize| args[i].as_str().unwrap_or("").to_string();
    let n = |i: usize| args[i].as_u64().unwrap_or(0);
    let built: Result<svfw::cw_std::WasmMsg, String> = match v["ty"].as_str().unwrap_or("contract") {
        "contract" => {
            use contract::sv::Executor;
            let remote = Remote::<contract::Ctr>::new(addr);
            let mut b = remote.executor();
            for f in &funds {
                b = b.with_funds(coins(f));
            }
            match method {
                "bump" => b.bump(n(0) as u32, args[1].as_str().map(|x| x.to_string())).map(|r| r.build()).map_err(|e| e.to_string()),
                "set_owner" => b.set_owner(s(0)).map(|r| r.build()).map_err(|e| e.to_string()),
                "foo1_bar" => b.foo_1_bar(n(0), n(1)).map(|r| r.build()).map_err(|e| e.to_string()),
                "wide" => b.wide(n(0) as u32, n(1) as u32, n(2) as u32, n(3) as u32, n(4) as u32, n(5) as u32, n(6) as u32, n(7) as u32, n(8) as u32, n(9) as u32, n(10) as u32).map(|r| r.build()).map_err(|e| e.to_string()),
                _ => Err("no such method".into()),
            }
        }
        "contract_as_iface" => {
            // interface helpers on a handle typed by the concrete contract
            use iface::sv::Executor;
            let remote = Remote::<contract::Ctr>::new(addr);
            let mut b = remote.executor();
            for f in &funds {
                b = b.with_funds(coins(f));
            }
            match method {
                "poke" => b.poke(n(0) as u32).map(|r| r.build()).map_err(|e| e.to_string()),
                "poke2" => b.poke_2(s(0), s(1)).map(|r| r.build()).map_err(|e| e.to_string()),
                "stage_2_poke" => b.stage_2_poke(n(0) as u32).map(|r| r.build()).map_err(|e| e.to_string()),
                "wide_poke" => b.wide_poke(n(0) as u32, n(1) as u32, n(2) as u32, n(3) as u32, n(4) as u32, n(5) as u32, n(6) as u32, n(7) as u32, n(8) as u32, n(9) as u32).map(|r| r.build()).map_err(|e| e.to_string()),
                _ => Err("no such method".into()),
            }
        }
        "dyn" => {
            use iface::sv::Executor;
            let remote = Remote::<dyn iface::Plain<Error = StdError>>::new(addr);
            let mut b = remote.executor();
            for f in &funds {
                b = b.with_funds(coins(f));
            }
            match method {
                "poke" => b.poke(n(0) as u32).map(|r| r.build()).map_err(|e| e.to_string()),
                "poke2" => b.poke_2(s(0), s(1)).map(|r| r.build()).map_err(|e| e.to_string()),
                "stage_2_poke" => b.stage_2_poke(n(0) as u32).map(|r| r.build()).map_err(|e| e.to_string()),
                "wide_poke" => b.wide_poke(n(0) as u32, n(1) as u32, n(2) as u32, n(3) as u32, n(4) as u32, n(5) as u32, n(6) as u32, n(7) as u32, n(8) as u32, n(9) as u32).map(|r| r.build()).map_err(|e| e.to_string()),
                _ => Err("no such method".into()),
            }
        }
        _ => Err("bad ty".into()),
    };
    match built {
        Ok(m) => deliver(&m),
        Err(e) => json!({"build_err": e}),
    }
}

fn remote_query(v: &Value) -> Value {
    use std::cell::RefCell;
    use std::rc::Rc;
    use svfw::cw_std::testing::{mock_dependencies, mock_env, MockQuerier};
    use svfw::cw_std::{ContractResult, QuerierWrapper, SystemResult, WasmQuery};
    let addr = Addr::unchecked(v["addr"].as_str().unwrap_or(""));
    let args = &v["args"];
    let method = v["method"].as_str().unwrap_or("");
    let seen: Rc<RefCell<Vec<Value>>> = Rc::new(RefCell::new(vec![]));
    let seen2 = seen.clone();
    let mut q: MockQuerier<Empty> = MockQuerier::new(&[]);
    q.update_wasm(move |w| match w {
        WasmQuery::Smart { contract_addr, msg } => {
            seen2.borrow_mut().push(json!({"contract_addr": contract_addr, "body": String::from_utf8_lossy(msg.as_slice())}));
            let deps = mock_dependencies();
            match svfw::cw_std::from_json::<contract::sv::ContractQueryMsg>(msg.as_slice()) {
                Ok(m) => match contract::entry_points::query(deps.as_ref(), mock_env(), m) {
                    Ok(b) => SystemResult::Ok(ContractResult::Ok(b)),
                    Err(e) => SystemResult::Ok(ContractResult::Err(e.to_string())),
                },
                Err(e) => SystemResult::Ok(ContractResult::Err(format!("target rejects the query: {}", e))),
            }
        }
        other => {
            seen2.borrow_mut().push(json!({"other_query": format!("{:?}", other)}));
            SystemResult::Ok(ContractResult::Err("not smart".into()))
        }
    });
    let wrapper = QuerierWrapper::<Empty>::new(&q);
    let n = |i: usize| args[i].as_u64().unwrap_or(0) as u32;
    let res: Result<Echo, String> = match v["ty"].as_str().unwrap_or("contract") {
        "contract" => {
            use contract::sv::Querier;
            let remote = Remote::<contract::Ctr>::new(addr);
            let bq = remote.querier(&wrapper);
            match method {
                "value" => bq.value().map_err(|e| e.to_string()),
                "sum" => bq.sum(n(0), n(1)).map_err(|e| e.to_string()),
                _ => Err("no such method".into()),
            }
        }
        "contract_as_iface" => {
            use iface::sv::Querier;
            let remote = Remote::<contract::Ctr>::new(addr);
            let bq = remote.querier(&wrapper);
            match method {
                "peek" => bq.peek().map_err(|e| e.to_string()),
                "peek_at" => bq.peek_at(n(0), args[1].as_str().unwrap_or("").to_string()).map_err(|e| e.to_string()),
                "peek_a_b" => bq.peek_ab(n(0)).map_err(|e| e.to_string()),
                _ => Err("no such method".into()),
            }
        }
        "dyn" => {
            use iface::sv::Querier;
            let remote = Remote::<dyn iface::Plain<Error = StdError>>::new(addr);
            let bq = remote.querier(&wrapper);
            match method {
                "peek" => bq.peek().map_err(|e| e.to_string()),
                "peek_at" => bq.peek_at(n(0), args[1].as_str().unwrap_or("").to_string()).map_err(|e| e.to_string()),
                "peek_a_b" => bq.peek_ab(n(0)).map_err(|e| e.to_string()),
                _ => Err("no such method".into()),
            }
        }
        "borrowed" => {
            use contract::sv::Querier;
            let bq = svfw::types::BoundQuerier::<_, contract::Ctr>::borrowed(&addr, &wrapper);
            match method {
                "value" => bq.value().map_err(|e| e.to_string()),
                "sum" => bq.sum(n(0), n(1)).map_err(|e| e.to_string()),
                _ => Err("no such method".into()),
            }
        }
        _ => Err("bad ty".into()),
    };
    let seen = seen.borrow().clone();
    match res {
        Ok(e) => json!({"seen": seen, "ok": serde_json::to_value(&e).unwrap()}),
        Err(e) => json!({"seen": seen, "err": e}),
    }
}

fn intersect(lists: &[Vec<String>]) -> Value {
    let refs: Vec<Vec<&str>> = lists.iter().map(|l| l.iter().map(|s| s.as_str()).collect()).collect();
    let slices: Vec<&[&str]> = refs.iter().map(|l| l.as_slice()).collect();
    macro_rules! go {
        ($($n:literal),*) => {
            match slices.len() {
                $( $n => {
                    let arr: [&[&str]; $n] = std::array::from_fn(|i| slices[i]);
                    catch_unwind(AssertUnwindSafe(|| svfw::utils::assert_no_intersection(arr)))
                } )*
                _ => return json!({"error": "too many lists"}),
            }
        };
    }
    let r = go!(0, 1, 2, 3, 4, 5, 6, 7, 8);
    match r {
        Ok(()) => json!({"outcome": "done"}),
        Err(e) => {
            let msg = if let Some(s) = e.downcast_ref::<&str>() {
                s.to_string()
            } else if let Some(s) = e.downcast_ref::<String>() {
                s.clone()
            } else {
                "?".into()
            };
            // an index-out-of-bounds or unreachable!() panic is not the overlap panic
            if msg.contains("Message overlaps") {
                json!({"outcome": "panic"})
            } else {
                json!({"outcome": "stuck", "msg": msg})
            }
        }
    }
}

fn coins(v: &Value) -> Vec<Coin> {
    serde_json::from_value(v.clone()).unwrap_or_default()
}

fn remote_ops(op: &str, v: &Value) -> Value {
    let ty = v["ty"].as_str().unwrap_or("contract");
    macro_rules! with_ty {
        ($f:ident) => {
            match ty {
                "contract" => $f::<contract::Ctr>(op, v),
                "dyn" => $f::<dyn iface::Plain<Error = StdError>>(op, v),
                "dyn_assoc" => $f::<dyn iface_assoc::WithAssoc<Error = StdError, Item = Vec<u8>>>(op, v),
                "empty" => $f::<Empty>(op, v),
                "unit" => $f::<()>(op, v),
                _ => json!({"error": "bad ty"}),
            }
        };
    }
    fn go<T: ?Sized>(op: &str, v: &Value) -> Value {
        match op {
            "remote_ser" => {
                let addr = Addr::unchecked(v["addr"].as_str().unwrap_or(""));
                let owned = v["owned"].as_bool().unwrap_or(true);
                let (a, b) = if owned {
                    let r = Remote::<T>::new(addr.clone());
                    (svfw::cw_std::to_json_string(&r).map_err(|e| e.to_string()), serde_json::to_string(&r).map_err(|e| e.to_string()))
                } else {
                    let r = Remote::<T>::borrowed(&addr);
                    (svfw::cw_std::to_json_string(&r).map_err(|e| e.to_string()), serde_json::to_string(&r).map_err(|e| e.to_string()))
                };
                json!({"wasm": a.ok(), "std": b.ok()})
            }
            "remote_de" => {
                let text = v["json"].as_str().unwrap_or("");
                let a: Result<Remote<T>, _> = svfw::cw_std::from_json(text.as_bytes());
                let b: Result<Remote<T>, _> = serde_json::from_str(text);
                json!({
                    "wasm": a.as_ref().ok().map(|r| AsRef::<Addr>::as_ref(r).to_string()),
                    "std": b.as_ref().ok().map(|r| AsRef::<Addr>::as_ref(r).to_string()),
                    // re-encode what was decoded
                    "wasm_reencoded": a.ok().and_then(|r| svfw::cw_std::to_json_string(&r).ok()),
                })
            }
            "remote_schema" => {
                let s = schemars::schema_for!(Remote<T>);
                json!({"name": <Remote<T> as schemars::JsonSchema>::schema_name(), "schema": serde_json::to_value(&s).unwrap_or(Value::Null)})
            }
            "remote_admin" => {
                let addr = Addr::unchecked(v["addr"].as_str().unwrap_or(""));
                let r = Remote::<T>::new(addr);
                let up = r.update_admin(v["admin"].as_str().unwrap_or(""));
                let cl = r.clear_admin();
                json!({"update": serde_json::to_value(&up).unwrap(), "clear": serde_json::to_value(&cl).unwrap()})
            }
            _ => json!({"error": "bad op"}),
        }
    }
    with_ty!(go)
}

fn handle(v: &Value) -> Value {
    let op = v["op"].as_str().unwrap_or("");
    match op {
        "intersect" => {
            let lists: Vec<Vec<String>> = serde_json::from_value(v["lists"].clone()).unwrap_or_default();
            intersect(&lists)
        }
        "into_response" => {
            let resp: Result<Response<Empty>, _> = serde_json::from_value(v["resp"].clone());
            match resp {
                Err(e) => json!({"bad_input": e.to_string()}),
                Ok(resp) => {
                    let input = serde_json::to_value(&resp).unwrap();
                    let out: Result<Response<MyMsg>, StdError> = IntoResponse::<MyMsg>::into_response(resp);
                    match out {
                        Ok(r) => json!({"input": input, "ok": serde_json::to_value(&r).unwrap()}),
                        Err(e) => json!({"input": input, "err": e.to_string()}),
                    }
                }
            }
        }
        "remote_ser" | "remote_de" | "remote_schema" | "remote_admin" => remote_ops(op, v),
        "remote_schema_multi" => {
            // one schema document mentioning the handle with several type parameters
            #[derive(schemars::JsonSchema)]
            #[allow(dead_code)]
            struct Holder {
                first: Remote<'static, contract::Ctr>,
                second: Remote<'static, dyn iface::Plain<Error = StdError>>,
                third: Remote<'static, dyn iface_assoc::WithAssoc<Error = StdError, Item = Vec<u8>>>,
                fourth: Option<Remote<'static, Empty>>,
            }
            json!({"schema": serde_json::to_value(&schemars::schema_for!(Holder)).unwrap_or(Value::Null)})
        }
        "remote_exec" => remote_exec(v),
        "remote_query" => remote_query(v),
        "executor_builder" => {
            // ExecutorBuilder state machine: new -> with_funds* -> (generated method) -> build
            use contract::sv::Executor;
            let addr = Addr::unchecked(v["addr"].as_str().unwrap_or(""));
            let remote = Remote::<contract::Ctr>::new(addr);
            let mut b = remote.executor();
            for f in v["funds_steps"].as_array().cloned().unwrap_or_default() {
                b = b.with_funds(coins(&f));
            }
            let by = v["by"].as_u64().unwrap_or(0) as u32;
            let memo = v["memo"].as_str().map(|s| s.to_string());
            match b.bump(by, memo) {
                Ok(ready) => json!({"ok": serde_json::to_value(&ready.build()).unwrap()}),
                Err(e) => json!({"err": e.to_string()}),
            }
        }
        "executor_builder_dyn" => {
            use iface::sv::Executor;
            let addr = Addr::unchecked(v["addr"].as_str().unwrap_or(""));
            let n = v["n"].as_u64().unwrap_or(0) as u32;
            let funds: Vec<Value> = v["funds_steps"].as_array().cloned().unwrap_or_default();
            let r1 = {
                let remote = Remote::<dyn iface::Plain<Error = StdError>>::new(addr.clone());
                let mut b = remote.executor();
                for f in &funds {
                    b = b.with_funds(coins(f));
                }
                b.poke(n).map(|r| serde_json::to_value(&r.build()).unwrap()).map_err(|e| e.to_string())
            };
            json!({"dyn": r1.ok()})
        }
        "instantiate_builder" => {
            use contract::sv::CtrInstantiateBuilder;
            let code_id = v["code_id"].as_u64().unwrap_or(0);
            let start = v["start"].as_u64().unwrap_or(0) as u32;
            let name = v["name"].as_str().unwrap_or("").to_string();
            let b = <svfw::builder::instantiate::InstantiateBuilder as CtrInstantiateBuilder>::ctr(code_id, start, name);
            let mut b = match b {
                Ok(b) => b,
                Err(e) => return json!({"err": e.to_string()}),
            };
            for step in v["steps"].as_array().cloned().unwrap_or_default() {
                let k = step[0].as_str().unwrap_or("");
                b = match k {
                    "label" => b.with_label(step[1].as_str().unwrap_or("")),
                    "admin" => b.with_admin(step[1].as_str().unwrap_or("").to_string()),
                    "funds" => b.with_funds(coins(&step[1])),
                    _ => b,
                };
            }
            let msg = match v.get("salt").and_then(|s| s.as_str()) {
                Some(s) => b.build2(Binary::from(s.as_bytes())),
                None => b.build(),
            };
            json!({"ok": serde_json::to_value(&msg).unwrap()})
        }
        "case" => {
            use convert_case::{Case, Casing};
            let s = v["s"].as_str().unwrap_or("");
            json!({"camel": s.to_case(Case::UpperCamel), "snake": s.to_case(Case::Snake), "upper_snake": s.to_case(Case::UpperSnake)})
        }
        _ => json!({"error": format!("unknown op {}", op)}),
    }
}

fn main() {
    std::panic::set_hook(Box::new(|_| {}));
    let args: Vec<String> = std::env::args().collect();
    let input = std::fs::File::open(&args[1]).expect("ops file");
    let mut out = std::io::BufWriter::new(std::fs::File::create(&args[2]).expect("out file"));
    for line in std::io::BufReader::new(input).lines() {
        let line = line.unwrap();
        if line.trim().is_empty() {
            continue;
        }
        let v: Value = match serde_json::from_str(&line) {
            Ok(v) => v,
            Err(e) => {
                writeln!(out, "{}", json!({"error": e.to_string()})).unwrap();
                continue;
            }
        };
        let r = catch_unwind(AssertUnwindSafe(|| handle(&v))).unwrap_or_else(|_| json!({"panicked": true}));
        writeln!(out, "{}", r).unwrap();
    }
}
