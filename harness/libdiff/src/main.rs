// L3 harness: calls sylvia's run-time library on operations read from a file (one JSON object per
// line) and prints one JSON observation per line. The framework is imported under the name `svfw`.
use serde_json::{json, Value};
use std::io::{BufRead, Write};
use std::panic::{catch_unwind, AssertUnwindSafe};
use svfw::cw_std::{Addr, Binary, Coin, Empty, Response, StdError};
use svfw::into_response::IntoResponse;
use svfw::types::Remote;

#[derive(serde::Serialize, serde::Deserialize, Clone, Debug, PartialEq, schemars::JsonSchema)]
pub struct MyMsg {
    pub x: u32,
}
impl svfw::cw_std::CustomMsg for MyMsg {}

pub mod iface {
    use svfw::ctx::{ExecCtx, QueryCtx};
    use svfw::cw_std::{Response, StdError};

    #[svfw::interface]
    #[sv::custom(msg=svfw::cw_std::Empty, query=svfw::cw_std::Empty)]
    pub trait Plain {
        type Error: From<StdError>;
        #[sv::msg(exec)]
        fn poke(&self, ctx: ExecCtx, n: u32) -> Result<Response, Self::Error>;
        #[sv::msg(query)]
        fn peek(&self, ctx: QueryCtx) -> Result<u32, Self::Error>;
    }
}

pub mod iface_assoc {
    use svfw::ctx::{ExecCtx, QueryCtx};
    use svfw::cw_std::{Response, StdError};

    #[svfw::interface]
    #[sv::custom(msg=svfw::cw_std::Empty, query=svfw::cw_std::Empty)]
    pub trait WithAssoc {
        type Error: From<StdError>;
        type Item: serde::Serialize + serde::de::DeserializeOwned + std::fmt::Debug;
        #[sv::msg(exec)]
        fn put(&self, ctx: ExecCtx, item: Self::Item) -> Result<Response, Self::Error>;
        #[sv::msg(query)]
        fn get(&self, ctx: QueryCtx) -> Result<Self::Item, Self::Error>;
    }
}

pub mod contract {
    use svfw::ctx::{ExecCtx, InstantiateCtx, QueryCtx};
    use svfw::cw_std::{Response, StdResult};

    pub struct Ctr;

    #[svfw::contract]
    impl Ctr {
        pub const fn new() -> Self {
            Self
        }
        #[sv::msg(instantiate)]
        pub fn instantiate(&self, _ctx: InstantiateCtx, start: u32, name: String) -> StdResult<Response> {
            let _ = (start, name);
            Ok(Response::new())
        }
        #[sv::msg(exec)]
        pub fn bump(&self, _ctx: ExecCtx, by: u32, memo: Option<String>) -> StdResult<Response> {
            let _ = (by, memo);
            Ok(Response::new())
        }
        #[sv::msg(query)]
        pub fn value(&self, _ctx: QueryCtx) -> StdResult<u32> {
            Ok(0)
        }
    }
}

fn intersect(lists: &[Vec<String>]) -> Value {
    let refs: Vec<Vec<&str>> = lists.iter().map(|l| l.iter().map(|s| s.as_str()).collect()).collect();
    let slices: Vec<&[&str]> = refs.iter().map(|l| l.as_slice()).collect();
    macro_rules! go {
        ($($n:literal),*) => {
            match slices.len() {
                $( $n => {
                    let arr: [&[&str]; $n] = std::array::from_fn(|i| slices[i]);
                    catch_unwind(AssertUnwindSafe(|| svfw::utils::assert_no_intersection(arr)))
                } )*
                _ => return json!({"error": "too many lists"}),
            }
        };
    }
    let r = go!(0, 1, 2, 3, 4, 5, 6, 7, 8);
    match r {
        Ok(()) => json!({"outcome": "done"}),
        Err(e) => {
            let msg = if let Some(s) = e.downcast_ref::<&str>() {
                s.to_string()
            } else if let Some(s) = e.downcast_ref::<String>() {
                s.clone()
            } else {
                "?".into()
            };
            // an index-out-of-bounds or unreachable!() panic is not the overlap panic
            if msg.contains("Message overlaps") {
                json!({"outcome": "panic"})
            } else {
                json!({"outcome": "stuck", "msg": msg})
            }
        }
    }
}

fn coins(v: &Value) -> Vec<Coin> {
    serde_json::from_value(v.clone()).unwrap_or_default()
}

fn remote_ops(op: &str, v: &Value) -> Value {
    let ty = v["ty"].as_str().unwrap_or("contract");
    macro_rules! with_ty {
        ($f:ident) => {
            match ty {
                "contract" => $f::<contract::Ctr>(op, v),
                "dyn" => $f::<dyn iface::Plain<Error = StdError>>(op, v),
                "dyn_assoc" => $f::<dyn iface_assoc::WithAssoc<Error = StdError, Item = Vec<u8>>>(op, v),
                "empty" => $f::<Empty>(op, v),
                "unit" => $f::<()>(op, v),
                _ => json!({"error": "bad ty"}),
            }
        };
    }
    fn go<T: ?Sized>(op: &str, v: &Value) -> Value {
        match op {
            "remote_ser" => {
                let addr = Addr::unchecked(v["addr"].as_str().unwrap_or(""));
                let owned = v["owned"].as_bool().unwrap_or(true);
                let (a, b) = if owned {
                    let r = Remote::<T>::new(addr.clone());
                    (svfw::cw_std::to_json_string(&r).map_err(|e| e.to_string()), serde_json::to_string(&r).map_err(|e| e.to_string()))
                } else {
                    let r = Remote::<T>::borrowed(&addr);
                    (svfw::cw_std::to_json_string(&r).map_err(|e| e.to_string()), serde_json::to_string(&r).map_err(|e| e.to_string()))
                };
                json!({"wasm": a.ok(), "std": b.ok()})
            }
            "remote_de" => {
                let text = v["json"].as_str().unwrap_or("");
                let a: Result<Remote<T>, _> = svfw::cw_std::from_json(text.as_bytes());
                let b: Result<Remote<T>, _> = serde_json::from_str(text);
                json!({
                    "wasm": a.as_ref().ok().map(|r| AsRef::<Addr>::as_ref(r).to_string()),
                    "std": b.as_ref().ok().map(|r| AsRef::<Addr>::as_ref(r).to_string()),
                    // re-encode what was decoded
                    "wasm_reencoded": a.ok().and_then(|r| svfw::cw_std::to_json_string(&r).ok()),
                })
            }
            "remote_schema" => {
                let s = schemars::schema_for!(Remote<T>);
                json!({"name": <Remote<T> as schemars::JsonSchema>::schema_name(), "schema": serde_json::to_value(&s).unwrap_or(Value::Null)})
            }
            "remote_admin" => {
                let addr = Addr::unchecked(v["addr"].as_str().unwrap_or(""));
                let r = Remote::<T>::new(addr);
                let up = r.update_admin(v["admin"].as_str().unwrap_or(""));
                let cl = r.clear_admin();
                json!({"update": serde_json::to_value(&up).unwrap(), "clear": serde_json::to_value(&cl).unwrap()})
            }
            _ => json!({"error": "bad op"}),
        }
    }
    with_ty!(go)
}

fn handle(v: &Value) -> Value {
    let op = v["op"].as_str().unwrap_or("");
    match op {
        "intersect" => {
            let lists: Vec<Vec<String>> = serde_json::from_value(v["lists"].clone()).unwrap_or_default();
            intersect(&lists)
        }
        "into_response" => {
            let resp: Result<Response<Empty>, _> = serde_json::from_value(v["resp"].clone());
            match resp {
                Err(e) => json!({"bad_input": e.to_string()}),
                Ok(resp) => {
                    let input = serde_json::to_value(&resp).unwrap();
                    let out: Result<Response<MyMsg>, StdError> = IntoResponse::<MyMsg>::into_response(resp);
                    match out {
                        Ok(r) => json!({"input": input, "ok": serde_json::to_value(&r).unwrap()}),
                        Err(e) => json!({"input": input, "err": e.to_string()}),
                    }
                }
            }
        }
        "remote_ser" | "remote_de" | "remote_schema" | "remote_admin" => remote_ops(op, v),
        "executor_builder" => {
            // ExecutorBuilder state machine: new -> with_funds* -> (generated method) -> build
            use contract::sv::Executor;
            let addr = Addr::unchecked(v["addr"].as_str().unwrap_or(""));
            let remote = Remote::<contract::Ctr>::new(addr);
            let mut b = remote.executor();
            for f in v["funds_steps"].as_array().cloned().unwrap_or_default() {
                b = b.with_funds(coins(&f));
            }
            let by = v["by"].as_u64().unwrap_or(0) as u32;
            let memo = v["memo"].as_str().map(|s| s.to_string());
            match b.bump(by, memo) {
                Ok(ready) => json!({"ok": serde_json::to_value(&ready.build()).unwrap()}),
                Err(e) => json!({"err": e.to_string()}),
            }
        }
        "executor_builder_dyn" => {
            use iface::sv::Executor;
            let addr = Addr::unchecked(v["addr"].as_str().unwrap_or(""));
            let n = v["n"].as_u64().unwrap_or(0) as u32;
            let funds: Vec<Value> = v["funds_steps"].as_array().cloned().unwrap_or_default();
            let r1 = {
                let remote = Remote::<dyn iface::Plain<Error = StdError>>::new(addr.clone());
                let mut b = remote.executor();
                for f in &funds {
                    b = b.with_funds(coins(f));
                }
                b.poke(n).map(|r| serde_json::to_value(&r.build()).unwrap()).map_err(|e| e.to_string())
            };
            json!({"dyn": r1.ok()})
        }
        "instantiate_builder" => {
            use contract::sv::CtrInstantiateBuilder;
            let code_id = v["code_id"].as_u64().unwrap_or(0);
            let start = v["start"].as_u64().unwrap_or(0) as u32;
            let name = v["name"].as_str().unwrap_or("").to_string();
            let b = <svfw::builder::instantiate::InstantiateBuilder as CtrInstantiateBuilder>::ctr(code_id, start, name);
            let mut b = match b {
                Ok(b) => b,
                Err(e) => return json!({"err": e.to_string()}),
            };
            for step in v["steps"].as_array().cloned().unwrap_or_default() {
                let k = step[0].as_str().unwrap_or("");
                b = match k {
                    "label" => b.with_label(step[1].as_str().unwrap_or("")),
                    "admin" => b.with_admin(step[1].as_str().unwrap_or("").to_string()),
                    "funds" => b.with_funds(coins(&step[1])),
                    _ => b,
                };
            }
            let msg = match v.get("salt").and_then(|s| s.as_str()) {
                Some(s) => b.build2(Binary::from(s.as_bytes())),
                None => b.build(),
            };
            json!({"ok": serde_json::to_value(&msg).unwrap()})
        }
        "case" => {
            use convert_case::{Case, Casing};
            let s = v["s"].as_str().unwrap_or("");
            json!({"camel": s.to_case(Case::UpperCamel), "snake": s.to_case(Case::Snake), "upper_snake": s.to_case(Case::UpperSnake)})
        }
        _ => json!({"error": format!("unknown op {}", op)}),
    }
}

fn main() {
    std::panic::set_hook(Box::new(|_| {}));
    let args: Vec<String> = std::env::args().collect();
    let input = std::fs::File::open(&args[1]).expect("ops file");
    let mut out = std::io::BufWriter::new(std::fs::File::create(&args[2]).expect("out file"));
    for line in std::io::BufReader::new(input).lines() {
        let line = line.unwrap();
        if line.trim().is_empty() {
            continue;
        }
        let v: Value = match serde_json::from_str(&line) {
            Ok(v) => v,
            Err(e) => {
                writeln!(out, "{}", json!({"error": e.to_string()})).unwrap();
                continue;
            }
        };
        let r = catch_unwind(AssertUnwindSafe(|| handle(&v))).unwrap_or_else(|_| json!({"panicked": true}));
        writeln!(out, "{}", r).unwrap();
    }
}
