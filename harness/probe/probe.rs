// L1 probe + translator front-end. Included into sylvia-derive's test build through the
// `verif-hook` feature (see MANIFEST.hooks). Reads requests from $SYLVIA_VERIF_REQ, writes
// tab-separated fact lines `<id>\t<key>\t<value>` to $SYLVIA_VERIF_OUT.
//
// Request file format (line oriented):
//   #REQ <id> <kind>          kind = contract | interface | entry_points | tables | scan | ast
//   #ATTR                     (optional) attribute tokens of the macro invocation
//   ...
//   #ITEM                     the annotated item source (for `tables`: the src directory)
//   ...
//   #END
//
// The dump is deliberately generic (items, attributes, signatures, bodies as normalised token
// strings); all interpretation is done by the Python side.

use proc_macro2::{Delimiter, Group, TokenStream as TS, TokenTree};
use quote::ToTokens;
use std::fmt::Write as _;
use std::panic::{catch_unwind, AssertUnwindSafe};
use syn::visit::Visit;

fn esc(s: &str) -> String {
    s.replace('\\', "\\\\").replace('\t', "\\t").replace('\n', "\\n").replace('\r', "\\r")
}

struct Out {
    buf: String,
    id: String,
}

impl Out {
    fn put(&mut self, key: &str, val: &str) {
        let _ = writeln!(self.buf, "{}\t{}\t{}", self.id, esc(key), esc(val));
    }
}

fn ts<T: ToTokens>(t: &T) -> String {
    t.to_token_stream().to_string()
}

/// Removes every `# [ ... ]` / `# ! [ ... ]` attribute at every nesting level.
fn strip_attr_tokens(input: TS) -> TS {
    let toks: Vec<TokenTree> = input.into_iter().collect();
    let mut out: Vec<TokenTree> = Vec::new();
    let mut i = 0;
    while i < toks.len() {
        if let TokenTree::Punct(p) = &toks[i] {
            if p.as_char() == '#' {
                let mut j = i + 1;
                if let Some(TokenTree::Punct(b)) = toks.get(j) {
                    if b.as_char() == '!' {
                        j += 1;
                    }
                }
                if let Some(TokenTree::Group(g)) = toks.get(j) {
                    if g.delimiter() == Delimiter::Bracket {
                        i = j + 1;
                        continue;
                    }
                }
            }
        }
        match &toks[i] {
            TokenTree::Group(g) => {
                let inner = strip_attr_tokens(g.stream());
                out.push(TokenTree::Group(Group::new(g.delimiter(), inner)));
            }
            t => out.push(t.clone()),
        }
        i += 1;
    }
    out.into_iter().collect()
}

fn dump_attrs(o: &mut Out, path: &str, attrs: &[syn::Attribute]) {
    for a in attrs {
        o.put(&format!("{}|attr", path), &ts(a));
    }
}

fn dump_fields(o: &mut Out, path: &str, fields: &syn::Fields) {
    for (i, f) in fields.iter().enumerate() {
        let name = f.ident.as_ref().map(|i| i.to_string()).unwrap_or_else(|| i.to_string());
        let p = format!("{}::{}", path, name);
        o.put(&format!("{}|field", p), &format!("vis={};ty={}", ts(&f.vis), ts(&f.ty)));
        dump_attrs(o, &p, &f.attrs);
    }
}

fn generics_str(g: &syn::Generics) -> String {
    let params: Vec<String> = g.params.iter().map(|p| ts(p)).collect();
    let wh: Vec<String> = g
        .where_clause
        .as_ref()
        .map(|w| w.predicates.iter().map(|p| ts(p)).collect())
        .unwrap_or_default();
    format!("generics=[{}];where=[{}]", params.join(" ,, "), wh.join(" ,, "))
}

fn dump_sig(o: &mut Out, path: &str, sig: &syn::Signature) {
    o.put(&format!("{}|sig", path), &ts(sig));
    o.put(&format!("{}|fn_generics", path), &generics_str(&sig.generics));
    for (i, a) in sig.inputs.iter().enumerate() {
        match a {
            syn::FnArg::Receiver(r) => {
                o.put(&format!("{}#{}|param", path, i), &format!("self={}", ts(r)));
                dump_attrs(o, &format!("{}#{}", path, i), &r.attrs);
            }
            syn::FnArg::Typed(t) => {
                o.put(&format!("{}#{}|param", path, i), &format!("pat={};ty={}", ts(&t.pat), ts(&t.ty)));
                dump_attrs(o, &format!("{}#{}", path, i), &t.attrs);
            }
        }
    }
    o.put(&format!("{}|ret", path), &ts(&sig.output));
}

fn dump_items(o: &mut Out, prefix: &str, items: &[syn::Item]) {
    let mut impl_no = 0usize;
    for item in items {
        match item {
            syn::Item::Mod(m) => {
                let p = format!("{}::{}", prefix, m.ident);
                o.put(&format!("{}|mod", p), &ts(&m.vis));
                dump_attrs(o, &p, &m.attrs);
                if let Some((_, items)) = &m.content {
                    dump_items(o, &p, items);
                }
            }
            syn::Item::Enum(e) => {
                let p = format!("{}::{}", prefix, e.ident);
                o.put(&format!("{}|enum", p), &generics_str(&e.generics));
                dump_attrs(o, &p, &e.attrs);
                for v in &e.variants {
                    let vp = format!("{}::{}", p, v.ident);
                    let kind = match &v.fields {
                        syn::Fields::Named(_) => "named",
                        syn::Fields::Unnamed(_) => "unnamed",
                        syn::Fields::Unit => "unit",
                    };
                    o.put(&format!("{}|variant", vp), kind);
                    dump_attrs(o, &vp, &v.attrs);
                    dump_fields(o, &vp, &v.fields);
                }
            }
            syn::Item::Struct(s) => {
                let p = format!("{}::{}", prefix, s.ident);
                o.put(&format!("{}|struct", p), &generics_str(&s.generics));
                dump_attrs(o, &p, &s.attrs);
                dump_fields(o, &p, &s.fields);
            }
            syn::Item::Type(t) => {
                let p = format!("{}::{}", prefix, t.ident);
                o.put(&format!("{}|alias", p), &format!("{};ty={}", generics_str(&t.generics), ts(&t.ty)));
            }
            syn::Item::Const(c) => {
                let p = format!("{}::{}", prefix, c.ident);
                o.put(&format!("{}|const", p), &format!("ty={};val={}", ts(&c.ty), ts(&c.expr)));
            }
            syn::Item::Fn(f) => {
                let p = format!("{}::{}", prefix, f.sig.ident);
                o.put(&format!("{}|fn", p), &ts(&f.vis));
                dump_attrs(o, &p, &f.attrs);
                dump_sig(o, &p, &f.sig);
                o.put(&format!("{}|body", p), &ts(&f.block));
            }
            syn::Item::Impl(im) => {
                let p = format!("{}::impl#{}", prefix, impl_no);
                impl_no += 1;
                let tr = im.trait_.as_ref().map(|(_, p, _)| ts(p)).unwrap_or_default();
                o.put(
                    &format!("{}|impl", p),
                    &format!("{};trait={};self={}", generics_str(&im.generics), tr, ts(&im.self_ty)),
                );
                dump_attrs(o, &p, &im.attrs);
                for it in &im.items {
                    match it {
                        syn::ImplItem::Fn(f) => {
                            let fp = format!("{}::{}", p, f.sig.ident);
                            o.put(&format!("{}|fn", fp), &ts(&f.vis));
                            dump_attrs(o, &fp, &f.attrs);
                            dump_sig(o, &fp, &f.sig);
                            o.put(&format!("{}|body", fp), &ts(&f.block));
                        }
                        syn::ImplItem::Type(t) => {
                            o.put(
                                &format!("{}::{}|assoc_type", p, t.ident),
                                &format!("{};ty={}", generics_str(&t.generics), ts(&t.ty)),
                            );
                        }
                        other => o.put(&format!("{}|other", p), &ts(other)),
                    }
                }
            }
            syn::Item::Trait(t) => {
                let p = format!("{}::{}", prefix, t.ident);
                o.put(
                    &format!("{}|trait", p),
                    &format!("{};super={}", generics_str(&t.generics), ts(&t.supertraits)),
                );
                dump_attrs(o, &p, &t.attrs);
                for it in &t.items {
                    match it {
                        syn::TraitItem::Fn(f) => {
                            let fp = format!("{}::{}", p, f.sig.ident);
                            o.put(&format!("{}|trait_fn", fp), "");
                            dump_attrs(o, &fp, &f.attrs);
                            dump_sig(o, &fp, &f.sig);
                            if let Some(b) = &f.default {
                                o.put(&format!("{}|body", fp), &ts(b));
                            }
                        }
                        syn::TraitItem::Type(ty) => {
                            o.put(&format!("{}::{}|trait_type", p, ty.ident), &ts(ty));
                        }
                        other => o.put(&format!("{}|other", p), &ts(other)),
                    }
                }
            }
            other => o.put(&format!("{}|other", prefix), &ts(other)),
        }
    }
}

/// Ordered list of every attribute in an item, with a syntactic context.
struct AttrCollector {
    stack: Vec<String>,
    found: Vec<(String, String)>,
}

impl AttrCollector {
    fn ctx(&self) -> String {
        self.stack.join("/")
    }
    fn method(&mut self, attrs: &[syn::Attribute], sig: &syn::Signature, block: Option<&syn::Block>) {
        let is_handler = attrs.iter().any(|a| {
            let s = &a.path().segments;
            s.len() == 2 && s[0].ident == "sv" && s[1].ident == "msg"
        });
        self.stack.push(format!("{}:{}", if is_handler { "handler" } else { "helper" }, sig.ident));
        for a in attrs {
            self.visit_attribute(a);
        }
        for (i, inp) in sig.inputs.iter().enumerate() {
            self.stack.push(format!("param:{}", i));
            self.visit_fn_arg(inp);
            self.stack.pop();
        }
        self.stack.push("sig".into());
        self.visit_generics(&sig.generics);
        self.visit_return_type(&sig.output);
        self.stack.pop();
        if let Some(b) = block {
            self.stack.push("body".into());
            self.visit_block(b);
            self.stack.pop();
        }
        self.stack.pop();
    }
}

impl<'ast> Visit<'ast> for AttrCollector {
    fn visit_attribute(&mut self, a: &'ast syn::Attribute) {
        let c = self.ctx();
        self.found.push((c, ts(a)));
    }
    fn visit_impl_item_fn(&mut self, f: &'ast syn::ImplItemFn) {
        if self.stack.len() == 1 {
            self.method(&f.attrs, &f.sig, Some(&f.block));
        } else {
            syn::visit::visit_impl_item_fn(self, f);
        }
    }
    fn visit_trait_item_fn(&mut self, f: &'ast syn::TraitItemFn) {
        if self.stack.len() == 1 {
            self.method(&f.attrs, &f.sig, f.default.as_ref());
        } else {
            syn::visit::visit_trait_item_fn(self, f);
        }
    }
}

fn dump_source_item(o: &mut Out, prefix: &str, item: &syn::Item) {
    o.put(&format!("{}|tokens", prefix), &ts(item));
    o.put(&format!("{}|tokens_noattr", prefix), &strip_attr_tokens(item.to_token_stream()).to_string());
    let mut c = AttrCollector { stack: vec!["item".into()], found: vec![] };
    c.visit_item(item);
    for (ctx, a) in c.found {
        o.put(&format!("{}|srcattr", prefix), &format!("{} @@ {}", ctx, a));
    }
    // method list with signature/body/visibility, for structural comparison
    let methods: Vec<(String, String, String, String)> = match item {
        syn::Item::Impl(im) => im
            .items
            .iter()
            .map(|it| match it {
                syn::ImplItem::Fn(f) => (
                    f.sig.ident.to_string(),
                    ts(&f.vis),
                    strip_attr_tokens(f.sig.to_token_stream()).to_string(),
                    ts(&f.block),
                ),
                other => ("<item>".into(), String::new(), ts(other), String::new()),
            })
            .collect(),
        syn::Item::Trait(t) => t
            .items
            .iter()
            .map(|it| match it {
                syn::TraitItem::Fn(f) => (
                    f.sig.ident.to_string(),
                    String::new(),
                    strip_attr_tokens(f.sig.to_token_stream()).to_string(),
                    f.default.as_ref().map(|b| ts(b)).unwrap_or_default(),
                ),
                other => ("<item>".into(), String::new(), ts(other), String::new()),
            })
            .collect(),
        _ => vec![],
    };
    for (n, vis, sig, body) in methods {
        o.put(&format!("{}|member", prefix), &format!("{} @@ {} @@ {} @@ {}", n, vis, sig, body));
    }
}

fn run_macro(kind: &str, attr: TS, item: TS) -> Result<TS, String> {
    let r = catch_unwind(AssertUnwindSafe(|| match kind {
        "contract" => crate::contract_impl(attr, item),
        "interface" => crate::interface_impl(attr, item),
        "entry_points" => crate::entry_points_impl(attr, item),
        _ => panic!("unknown kind"),
    }));
    r.map_err(|e| {
        if let Some(s) = e.downcast_ref::<String>() {
            s.clone()
        } else if let Some(s) = e.downcast_ref::<&str>() {
            s.to_string()
        } else {
            "panic".to_string()
        }
    })
}

fn handle_expand(o: &mut Out, kind: &str, attr_src: &str, item_src: &str) {
    let attr: TS = match attr_src.parse() {
        Ok(t) => t,
        Err(e) => {
            o.put("status", &format!("bad_request attr {}", e));
            return;
        }
    };
    let item: TS = match item_src.parse() {
        Ok(t) => t,
        Err(e) => {
            o.put("status", &format!("bad_request item {}", e));
            return;
        }
    };
    if let Ok(orig) = syn::parse2::<syn::Item>(item.clone()) {
        dump_source_item(o, "orig", &orig);
    }
    let first = run_macro(kind, attr.clone(), item.clone());
    let out = match first {
        Err(msg) => {
            // proc-macro-error outside of its entry point panics at the first emit_error!/abort!
            o.put("status", "rejected_diag");
            o.put("panic", &msg);
            return;
        }
        Ok(t) => t,
    };
    // determinism inside one process
    if let Ok(second) = run_macro(kind, attr, item) {
        o.put("same_twice", if second.to_string() == out.to_string() { "true" } else { "false" });
    } else {
        o.put("same_twice", "false");
    }
    let out_str = out.to_string();
    o.put("out_len", &out_str.len().to_string());
    // cheap stable digest for cross-process determinism (FNV-1a 64)
    let mut h: u64 = 0xcbf29ce484222325;
    for b in out_str.as_bytes() {
        h ^= *b as u64;
        h = h.wrapping_mul(0x100000001b3);
    }
    o.put("out_hash", &format!("{:016x}", h));
    let file: syn::File = match syn::parse2(out) {
        Ok(f) => f,
        Err(e) => {
            o.put("status", "unparsable_output");
            o.put("parse_error", &e.to_string());
            return;
        }
    };
    // compile_error! at top level = a syn::Error surfaced by the macro
    let mut rejected = false;
    for it in &file.items {
        if let syn::Item::Macro(m) = it {
            let p = ts(&m.mac.path);
            if p.contains("compile_error") {
                rejected = true;
                o.put("compile_error", &m.mac.tokens.to_string());
            }
        }
    }
    if rejected {
        o.put("status", "rejected_syn");
        return;
    }
    o.put("status", "accepted");
    if let Some(first) = file.items.first() {
        dump_source_item(o, "input", first);
        dump_attrs_of_item(o, first);
    }
    o.put("n_items", &file.items.len().to_string());
    if file.items.len() > 1 {
        dump_items(o, "", &file.items[1..]);
    }
}

fn dump_attrs_of_item(o: &mut Out, item: &syn::Item) {
    let attrs: &[syn::Attribute] = match item {
        syn::Item::Impl(i) => &i.attrs,
        syn::Item::Trait(t) => &t.attrs,
        _ => &[],
    };
    for a in attrs {
        o.put("input|itemattr", &ts(a));
    }
}

// ------------------------------------------------------------------------------------------
// Translator front-end: dumps `match` arms and quote!/parse_quote! templates of the source.

struct TableVisitor<'o> {
    o: &'o mut Out,
    file: String,
    ctx: Vec<String>,
    match_no: usize,
    tmpl_no: usize,
}

impl<'o, 'ast> Visit<'ast> for TableVisitor<'o> {
    fn visit_item_impl(&mut self, i: &'ast syn::ItemImpl) {
        let name = match &i.trait_ {
            Some((_, p, _)) => format!("<{} as {}>", ts(&i.self_ty), ts(p)),
            None => ts(&i.self_ty),
        };
        self.ctx.push(name.replace(' ', ""));
        syn::visit::visit_item_impl(self, i);
        self.ctx.pop();
    }
    fn visit_item_trait(&mut self, i: &'ast syn::ItemTrait) {
        self.ctx.push(i.ident.to_string());
        syn::visit::visit_item_trait(self, i);
        self.ctx.pop();
    }
    fn visit_item_mod(&mut self, i: &'ast syn::ItemMod) {
        // test modules are not part of the generator
        if i.attrs.iter().any(|a| ts(a).contains("cfg") && ts(a).contains("test")) {
            return;
        }
        self.ctx.push(i.ident.to_string());
        syn::visit::visit_item_mod(self, i);
        self.ctx.pop();
    }
    fn visit_impl_item_fn(&mut self, f: &'ast syn::ImplItemFn) {
        self.ctx.push(f.sig.ident.to_string());
        let (m, t) = (self.match_no, self.tmpl_no);
        self.match_no = 0;
        self.tmpl_no = 0;
        syn::visit::visit_impl_item_fn(self, f);
        self.match_no = m;
        self.tmpl_no = t;
        self.ctx.pop();
    }
    fn visit_trait_item_fn(&mut self, f: &'ast syn::TraitItemFn) {
        self.ctx.push(f.sig.ident.to_string());
        let (m, t) = (self.match_no, self.tmpl_no);
        self.match_no = 0;
        self.tmpl_no = 0;
        syn::visit::visit_trait_item_fn(self, f);
        self.match_no = m;
        self.tmpl_no = t;
        self.ctx.pop();
    }
    fn visit_item_fn(&mut self, f: &'ast syn::ItemFn) {
        if f.attrs.iter().any(|a| ts(a).contains("cfg") && ts(a).contains("test")) {
            return;
        }
        self.ctx.push(f.sig.ident.to_string());
        let (m, t) = (self.match_no, self.tmpl_no);
        self.match_no = 0;
        self.tmpl_no = 0;
        syn::visit::visit_item_fn(self, f);
        self.match_no = m;
        self.tmpl_no = t;
        self.ctx.pop();
    }
    fn visit_expr_match(&mut self, m: &'ast syn::ExprMatch) {
        let key = format!("{}::{}#m{}", self.file, self.ctx.join("::"), self.match_no);
        self.match_no += 1;
        self.o.put("match", &format!("{} @@ {}", key, ts(&m.expr)));
        for arm in &m.arms {
            let guard = arm.guard.as_ref().map(|(_, g)| ts(g)).unwrap_or_default();
            self.o.put(
                "arm",
                &format!("{} @@ {} @@ {} @@ {}", key, ts(&arm.pat), guard, ts(&arm.body)),
            );
            if !arm.attrs.is_empty() {
                let attrs: Vec<String> = arm.attrs.iter().map(|a| ts(a)).collect();
                self.o.put("armattrs", &format!("{} @@ {} @@ {}", key, ts(&arm.pat), attrs.join(" ;; ")));
            }
        }
        syn::visit::visit_expr_match(self, m);
    }
    fn visit_expr_if(&mut self, i: &'ast syn::ExprIf) {
        // a chain `if x == "a" { A } else if x == "b" { B } else { D }` is the same table as
        // `match x { "a" => A, "b" => B, _ => D }`: dumped as a match (it takes the next match index)
        fn str_eq(c: &syn::Expr) -> Option<(String, String)> {
            if let syn::Expr::Binary(b) = c {
                if let syn::BinOp::Eq(_) = b.op {
                    if let syn::Expr::Lit(syn::ExprLit { lit: syn::Lit::Str(l), .. }) = &*b.right {
                        return Some((ts(&b.left), l.value()));
                    }
                    if let syn::Expr::Lit(syn::ExprLit { lit: syn::Lit::Str(l), .. }) = &*b.left {
                        return Some((ts(&b.right), l.value()));
                    }
                }
            }
            None
        }
        fn body_text(b: &syn::Block) -> String {
            if b.stmts.len() == 1 {
                if let syn::Stmt::Expr(e, None) = &b.stmts[0] {
                    return ts(e);
                }
            }
            ts(b)
        }
        let mut arms: Vec<(String, String)> = Vec::new();
        let mut lhs: Option<String> = None;
        let mut default: Option<String> = None;
        let mut cur = i;
        let mut links: Vec<&'ast syn::ExprIf> = Vec::new();
        loop {
            match str_eq(&cur.cond) {
                Some((l, lit)) if lhs.is_none() || lhs.as_deref() == Some(l.as_str()) => {
                    lhs = Some(l);
                    arms.push((lit, body_text(&cur.then_branch)));
                    links.push(cur);
                }
                _ => {
                    arms.clear();
                    break;
                }
            }
            match &cur.else_branch {
                Some((_, e)) => match &**e {
                    syn::Expr::If(n) => cur = n,
                    syn::Expr::Block(b) => {
                        default = Some(body_text(&b.block));
                        break;
                    }
                    other => {
                        default = Some(ts(other));
                        break;
                    }
                },
                None => break,
            }
        }
        if arms.is_empty() || default.is_none() {
            syn::visit::visit_expr_if(self, i);
            return;
        }
        let key = format!("{}::{}#m{}", self.file, self.ctx.join("::"), self.match_no);
        self.match_no += 1;
        self.o.put("match", &format!("{} @@ {}", key, lhs.unwrap_or_default()));
        for (lit, body) in &arms {
            self.o.put("arm", &format!("{} @@ {} @@ {} @@ {}", key, q(lit), "", body));
        }
        self.o.put("arm", &format!("{} @@ {} @@ {} @@ {}", key, "_", "", default.unwrap_or_default()));
        for l in &links {
            self.visit_block(&l.then_branch);
        }
        if let Some(last) = links.last() {
            if let Some((_, e)) = &last.else_branch {
                self.visit_expr(e);
            }
        }
    }
    fn visit_item_struct(&mut self, i: &'ast syn::ItemStruct) {
        // struct definitions with their attributes (serde description of run-time library types)
        let key = format!("{}::{}", self.file, i.ident);
        let attrs: Vec<String> = i.attrs.iter().filter(|a| !a.path().is_ident("doc")).map(|a| ts(a)).collect();
        self.o.put("structdef", &format!("{} @@ {} @@ {}", key, generics_str(&i.generics), attrs.join(" ;; ")));
        for (n, f) in i.fields.iter().enumerate() {
            let fname = f.ident.as_ref().map(|x| x.to_string()).unwrap_or_else(|| n.to_string());
            let fattrs: Vec<String> = f.attrs.iter().filter(|a| !a.path().is_ident("doc")).map(|a| ts(a)).collect();
            self.o.put("structfield", &format!("{} @@ {} @@ {} @@ {}", key, fname, ts(&f.ty), fattrs.join(" ;; ")));
        }
        syn::visit::visit_item_struct(self, i);
    }
    fn visit_expr_struct(&mut self, e: &'ast syn::ExprStruct) {
        // struct literals inside functions: `Path { f: expr, .., ..rest }`
        let key = format!("{}::{}", self.file, self.ctx.join("::"));
        let fields: Vec<String> = e.fields.iter().map(|f| format!("{}={}", ts(&f.member), ts(&f.expr))).collect();
        let rest = e.rest.as_ref().map(|r| ts(r)).unwrap_or_default();
        self.o.put("structlit", &format!("{} @@ {} @@ {} @@ {}", key, ts(&e.path), fields.join(" ;; "), rest));
        syn::visit::visit_expr_struct(self, e);
    }
    fn visit_macro(&mut self, m: &'ast syn::Macro) {
        let name = m.path.segments.last().map(|s| s.ident.to_string()).unwrap_or_default();
        if name == "quote" || name == "parse_quote" {
            let key = format!("{}::{}#t{}", self.file, self.ctx.join("::"), self.tmpl_no);
            self.tmpl_no += 1;
            self.o.put("template", &format!("{} @@ {} @@ {}", key, name, m.tokens.to_string()));
            // templates nested in interpolations are visited through the token stream below
        } else if name == "emit_error" || name == "emit_warning" || name == "abort" {
            let key = format!("{}::{}", self.file, self.ctx.join("::"));
            self.o.put("diag", &format!("{} @@ {} @@ {}", key, name, m.tokens.to_string()));
        }
        // macros whose body parses as expressions/blocks may contain further matches/templates
        if let Ok(e) = syn::parse2::<syn::Expr>(m.tokens.clone()) {
            self.visit_expr(&e);
        } else if let Ok(b) = m.parse_body_with(syn::Block::parse_within) {
            for s in &b {
                self.visit_stmt(s);
            }
        }
    }
}

fn walk_rs(dir: &std::path::Path, acc: &mut Vec<std::path::PathBuf>) {
    if let Ok(rd) = std::fs::read_dir(dir) {
        let mut entries: Vec<_> = rd.filter_map(|e| e.ok()).map(|e| e.path()).collect();
        entries.sort();
        for p in entries {
            if p.is_dir() {
                walk_rs(&p, acc);
            } else if p.extension().map(|e| e == "rs").unwrap_or(false) {
                acc.push(p);
            }
        }
    }
}

fn handle_tables(o: &mut Out, dir: &str) {
    let root = std::path::Path::new(dir.trim());
    let mut files = vec![];
    walk_rs(root, &mut files);
    o.put("n_files", &files.len().to_string());
    for p in files {
        let rel = p.strip_prefix(root).unwrap_or(&p).to_string_lossy().to_string();
        let src = match std::fs::read_to_string(&p) {
            Ok(s) => s,
            Err(e) => {
                o.put("file_error", &format!("{} {}", rel, e));
                continue;
            }
        };
        match syn::parse_file(&src) {
            Ok(f) => {
                let mut v = TableVisitor { o, file: rel.clone(), ctx: vec![], match_no: 0, tmpl_no: 0 };
                v.visit_file(&f);
            }
            Err(e) => o.put("file_error", &format!("{} {}", rel, e)),
        }
    }
    o.put("status", "tables_done");
}

// ------------------------------------------------------------------------------------------
// Real sources: every item annotated with one of the three macros in a file is expanded.

struct MacroItems {
    found: Vec<(String, TS, syn::Item)>, // macro kind, its arguments, the item as the macro receives it
}

fn macro_kind(a: &syn::Attribute) -> Option<&'static str> {
    let last = a.path().segments.last()?.ident.to_string();
    let first = a.path().segments.first()?.ident.to_string();
    if a.path().segments.len() > 2 || (a.path().segments.len() == 2 && first != "sylvia") {
        return None;
    }
    match last.as_str() {
        "contract" => Some("contract"),
        "interface" => Some("interface"),
        "entry_points" => Some("entry_points"),
        _ => None,
    }
}

fn macro_args(a: &syn::Attribute) -> TS {
    match &a.meta {
        syn::Meta::List(l) => l.tokens.clone(),
        _ => TS::new(),
    }
}

impl MacroItems {
    fn consider(&mut self, attrs: &[syn::Attribute], rebuild: &dyn Fn(Vec<syn::Attribute>) -> syn::Item) {
        for (i, a) in attrs.iter().enumerate() {
            if let Some(kind) = macro_kind(a) {
                // rustc expands attribute macros outermost first: the macro at position i receives the
                // item with the attributes before it already expanded away and the later ones intact
                let rest: Vec<syn::Attribute> = attrs
                    .iter()
                    .enumerate()
                    .filter(|(j, b)| *j > i || (*j < i && macro_kind(b).is_none()))
                    .map(|(_, b)| b.clone())
                    .collect();
                self.found.push((kind.to_string(), macro_args(a), rebuild(rest)));
            }
        }
    }
}

impl<'ast> Visit<'ast> for MacroItems {
    fn visit_item_impl(&mut self, i: &'ast syn::ItemImpl) {
        let base = i.clone();
        self.consider(&i.attrs, &|attrs| syn::Item::Impl(syn::ItemImpl { attrs, ..base.clone() }));
    }
    fn visit_item_trait(&mut self, i: &'ast syn::ItemTrait) {
        let base = i.clone();
        self.consider(&i.attrs, &|attrs| syn::Item::Trait(syn::ItemTrait { attrs, ..base.clone() }));
    }
}

fn handle_scan(o: &mut Out, path: &str) {
    let src = match std::fs::read_to_string(path.trim()) {
        Ok(s) => s,
        Err(e) => {
            o.put("status", &format!("unreadable {}", e));
            return;
        }
    };
    let file = match syn::parse_file(&src) {
        Ok(f) => f,
        Err(e) => {
            o.put("status", &format!("unparsable {}", e));
            return;
        }
    };
    let mut v = MacroItems { found: vec![] };
    v.visit_file(&file);
    o.put("status", "scanned");
    o.put("n_found", &v.found.len().to_string());
    let base_id = o.id.clone();
    for (n, (kind, args, item)) in v.found.into_iter().enumerate() {
        o.id = format!("{}#{}", base_id, n);
        o.put("kind", &kind);
        handle_expand(o, &kind, &args.to_string(), &item.to_token_stream().to_string());
        o.put("end", "");
    }
    o.id = base_id;
}


// ------------------------------------------------------------------------------------------
// Translator front-end for the imperative run-time library code (sylvia/src/utils.rs, builders):
// every fn of a file as an S-expression over a small Rust subset. Shapes outside the subset are
// dumped as (unsupported "..."), which the Python side refuses for the functions it translates.

fn q(s: &str) -> String {
    let mut o = String::from("\"");
    for c in s.chars() {
        match c {
            '"' => o.push_str("\\\""),
            '\\' => o.push_str("\\\\"),
            '\n' => o.push_str("\\n"),
            _ => o.push(c),
        }
    }
    o.push('"');
    o
}

fn sx_path(p: &syn::Path) -> String {
    let mut o = String::from("(path");
    for s in &p.segments {
        o.push(' ');
        // generic arguments written on a segment (turbofish) are kept in the segment's text, without white space
        let args: String = match &s.arguments {
            syn::PathArguments::None => String::new(),
            other => ts(other).chars().filter(|c| !c.is_whitespace()).collect::<String>().replace("::<", "<"),
        };
        o.push_str(&q(&format!("{}{}", s.ident, args)));
    }
    o.push(')');
    o
}

fn sx_lit(l: &syn::Lit) -> String {
    match l {
        syn::Lit::Int(i) => format!("(int {})", i.base10_digits()),
        syn::Lit::Bool(b) => format!("(bool {})", b.value),
        syn::Lit::Str(s) => format!("(str {})", q(&s.value())),
        other => format!("(unsupported {})", q(&format!("lit {}", ts(other)))),
    }
}

fn sx_pat(p: &syn::Pat) -> String {
    match p {
        syn::Pat::Wild(_) => "(pwild)".into(),
        syn::Pat::Rest(_) => "(prest)".into(),
        syn::Pat::Ident(i) if i.subpat.is_none() && i.by_ref.is_none() => {
            format!("(pident {} {})", q(&i.ident.to_string()), if i.mutability.is_some() { "mut" } else { "imm" })
        }
        syn::Pat::Path(pp) if pp.qself.is_none() => format!("(ppath {})", sx_path(&pp.path)),
        syn::Pat::TupleStruct(t) if t.qself.is_none() => {
            let mut o = format!("(ptuplestruct {}", sx_path(&t.path));
            for e in &t.elems {
                o.push(' ');
                o.push_str(&sx_pat(e));
            }
            o.push(')');
            o
        }
        syn::Pat::Or(or) => {
            let mut o = String::from("(por");
            for c in &or.cases {
                o.push(' ');
                o.push_str(&sx_pat(c));
            }
            o.push(')');
            o
        }
        syn::Pat::Lit(l) => match &l.lit {
            lit => format!("(plit {})", sx_lit(lit)),
        },
        syn::Pat::Paren(pp) => sx_pat(&pp.pat),
        syn::Pat::Tuple(t) => {
            let mut o = String::from("(ptuple");
            for e in &t.elems {
                o.push(' ');
                o.push_str(&sx_pat(e));
            }
            o.push(')');
            o
        }
        syn::Pat::Reference(r) if r.mutability.is_none() => sx_pat(&r.pat),
        syn::Pat::Type(t) => sx_pat(&t.pat),
        syn::Pat::Struct(st) if st.qself.is_none() => {
            // `Path { field, field: pat, .. }`
            let mut o = format!("(pstruct {}", sx_path(&st.path));
            for f in &st.fields {
                let name = match &f.member {
                    syn::Member::Named(i) => i.to_string(),
                    syn::Member::Unnamed(n) => n.index.to_string(),
                };
                o.push_str(&format!(" (pf {} {})", q(&name), sx_pat(&f.pat)));
            }
            o.push(')');
            o
        }
        other => format!("(unsupported {})", q(&format!("pat {}", ts(other)))),
    }
}

fn sx_block(b: &syn::Block) -> String {
    sx_stmts(&b.stmts)
}

fn sx_stmts(stmts: &[syn::Stmt]) -> String {
    let mut o = String::from("(block");
    for s in stmts {
        o.push(' ');
        match s {
            syn::Stmt::Local(l) => match &l.init {
                Some(init) if init.diverge.is_none() => {
                    o.push_str(&format!("(let {} {})", sx_pat(&l.pat), sx_expr(&init.expr)));
                }
                _ => o.push_str(&format!("(unsupported {})", q(&format!("let {}", ts(l))))),
            },
            syn::Stmt::Expr(e, semi) => {
                if semi.is_some() {
                    o.push_str(&format!("(semi {})", sx_expr(e)));
                } else {
                    o.push_str(&format!("(tail {})", sx_expr(e)));
                }
            }
            syn::Stmt::Macro(m) => {
                let e = sx_macro(&m.mac);
                if m.semi_token.is_some() {
                    o.push_str(&format!("(semi {})", e));
                } else {
                    o.push_str(&format!("(tail {})", e));
                }
            }
            // a `use` inside a body only brings names into scope
            syn::Stmt::Item(syn::Item::Use(u)) => o.push_str(&format!("(use {})", q(&ts(&u.tree)))),
            // a constant declared inside the body: a binding of that name
            syn::Stmt::Item(syn::Item::Const(c)) => {
                o.push_str(&format!("(letconst {} {})", q(&c.ident.to_string()), sx_expr(&c.expr)));
            }
            syn::Stmt::Item(i) => o.push_str(&format!("(unsupported {})", q(&format!("item {}", ts(i))))),
        }
    }
    o.push(')');
    o
}

struct ForRange {
    var: syn::Ident,
    lo: syn::Expr,
    hi: syn::Expr,
    body: Vec<syn::Stmt>,
}

impl syn::parse::Parse for ForRange {
    fn parse(input: syn::parse::ParseStream) -> syn::Result<Self> {
        let var: syn::Ident = input.parse()?;
        input.parse::<syn::Token![in]>()?;
        // the range expression stops before `=>`
        let range: syn::Expr = input.call(syn::Expr::parse_without_eager_brace)?;
        input.parse::<syn::Token![=>]>()?;
        let body = input.call(syn::Block::parse_within)?;
        match range {
            syn::Expr::Range(r) if matches!(r.limits, syn::RangeLimits::HalfOpen(_)) => match (r.start, r.end) {
                (Some(lo), Some(hi)) => Ok(ForRange { var, lo: *lo, hi: *hi, body }),
                _ => Err(input.error("open range")),
            },
            _ => Err(input.error("not a half-open range")),
        }
    }
}

fn sx_macro(m: &syn::Macro) -> String {
    let name = m.path.segments.iter().map(|s| s.ident.to_string()).collect::<Vec<_>>().join("::");
    match name.as_str() {
        "konst::for_range" => match syn::parse2::<ForRange>(m.tokens.clone()) {
            Ok(f) => format!("(forrange {} {} {} {})", q(&f.var.to_string()), sx_expr(&f.lo), sx_expr(&f.hi), sx_stmts(&f.body)),
            Err(e) => format!("(unsupported {})", q(&format!("for_range: {}", e))),
        },
        "panic" | "unreachable" | "unimplemented" | "todo" => {
            // the first string literal, if any, is the message
            let msg = syn::parse2::<syn::LitStr>(m.tokens.clone()).map(|l| l.value()).unwrap_or_default();
            let only_lit = m.tokens.is_empty() || syn::parse2::<syn::LitStr>(m.tokens.clone()).is_ok();
            if only_lit {
                format!("(macro {} {})", q(&name), q(&msg))
            } else {
                format!("(unsupported {})", q(&format!("macro {}", ts(m))))
            }
        }
        "vec" if m.tokens.is_empty() => "(array)".into(),
        // `vec![e1, e2, ..]`: the listed elements (the repeat form `vec![e; n]` stays unsupported)
        "vec" => match m.parse_body_with(syn::punctuated::Punctuated::<syn::Expr, syn::Token![,]>::parse_terminated) {
            Ok(es) => {
                let mut o = String::from("(array");
                for e in es.iter() {
                    o.push(' ');
                    o.push_str(&sx_expr(e));
                }
                o.push(')');
                o
            }
            Err(_) => format!("(unsupported {})", q(&format!("macro {}", ts(m)))),
        },
        // a code template: its tokens as text (the translator makes it a symbolic value holding the holes' values)
        "quote" | "parse_quote" => format!("(quote {})", q(&m.tokens.to_string())),
        // a diagnostic of the macro: recorded, not modelled as control flow (proc-macro-error collects it)
        // (the first string literal among its arguments - the message - is kept)
        "emit_error" | "emit_warning" => {
            let mut msg = String::new();
            for t in m.tokens.clone() {
                if let proc_macro2::TokenTree::Literal(l) = &t {
                    if let Ok(ls) = syn::parse_str::<syn::LitStr>(&l.to_string()) {
                        msg = ls.value();
                        break;
                    }
                }
            }
            format!("(diag {} {})", q(&name), q(&msg))
        }
        "format" => {
            // (format "<template>" args..): the template and the argument expressions
            struct FmtArgs(syn::LitStr, Vec<syn::Expr>);
            impl syn::parse::Parse for FmtArgs {
                fn parse(input: syn::parse::ParseStream) -> syn::Result<Self> {
                    let l: syn::LitStr = input.parse()?;
                    let mut v = Vec::new();
                    while !input.is_empty() {
                        input.parse::<syn::Token![,]>()?;
                        if input.is_empty() {
                            break;
                        }
                        v.push(input.parse::<syn::Expr>()?);
                    }
                    Ok(FmtArgs(l, v))
                }
            }
            match syn::parse2::<FmtArgs>(m.tokens.clone()) {
                Ok(FmtArgs(l, args)) => {
                    let mut o = format!("(format {}", q(&l.value()));
                    for a in &args {
                        o.push(' ');
                        o.push_str(&sx_expr(a));
                    }
                    o.push(')');
                    o
                }
                Err(_) => format!("(unsupported {})", q(&format!("macro {}", ts(m)))),
            }
        }
        _ => format!("(unsupported {})", q(&format!("macro {}", ts(m)))),
    }
}

fn sx_binop(op: &syn::BinOp) -> Option<(&'static str, bool)> {
    // (operator, is compound assignment)
    Some(match op {
        syn::BinOp::Add(_) => ("+", false),
        syn::BinOp::Sub(_) => ("-", false),
        syn::BinOp::Mul(_) => ("*", false),
        syn::BinOp::And(_) => ("&&", false),
        syn::BinOp::Or(_) => ("||", false),
        syn::BinOp::Eq(_) => ("==", false),
        syn::BinOp::Ne(_) => ("!=", false),
        syn::BinOp::Lt(_) => ("<", false),
        syn::BinOp::Le(_) => ("<=", false),
        syn::BinOp::Gt(_) => (">", false),
        syn::BinOp::Ge(_) => (">=", false),
        syn::BinOp::AddAssign(_) => ("+", true),
        syn::BinOp::SubAssign(_) => ("-", true),
        _ => return None,
    })
}

fn sx_expr(e: &syn::Expr) -> String {
    match e {
        syn::Expr::Lit(l) => sx_lit(&l.lit),
        syn::Expr::Path(p) if p.qself.is_none() => sx_path(&p.path),
        syn::Expr::Paren(p) => sx_expr(&p.expr),
        syn::Expr::Group(p) => sx_expr(&p.expr),
        syn::Expr::Reference(r) => {
            if r.mutability.is_some() {
                // a mutable borrow: dumped as such; the translator accepts it only where it gives it a meaning
                format!("(refmut {})", sx_expr(&r.expr))
            } else {
                format!("(ref {})", sx_expr(&r.expr))
            }
        }
        syn::Expr::Unary(u) => match u.op {
            syn::UnOp::Deref(_) => format!("(deref {})", sx_expr(&u.expr)),
            syn::UnOp::Not(_) => format!("(not {})", sx_expr(&u.expr)),
            _ => format!("(unsupported {})", q(&format!("unary {}", ts(u)))),
        },
        syn::Expr::Binary(b) => match sx_binop(&b.op) {
            Some((op, false)) => format!("(bin {} {} {})", q(op), sx_expr(&b.left), sx_expr(&b.right)),
            Some((op, true)) => format!("(assignop {} {} {})", q(op), sx_expr(&b.left), sx_expr(&b.right)),
            None => format!("(unsupported {})", q(&format!("binary {}", ts(b)))),
        },
        syn::Expr::Assign(a) => format!("(assign {} {})", sx_expr(&a.left), sx_expr(&a.right)),
        syn::Expr::Index(i) => format!("(index {} {})", sx_expr(&i.expr), sx_expr(&i.index)),
        syn::Expr::Field(f) => match &f.member {
            syn::Member::Named(n) => format!("(field {} {})", sx_expr(&f.base), q(&n.to_string())),
            syn::Member::Unnamed(n) => format!("(field {} {})", sx_expr(&f.base), q(&n.index.to_string())),
        },
        syn::Expr::Call(c) => {
            let mut o = format!("(call {}", sx_expr(&c.func));
            for a in &c.args {
                o.push(' ');
                o.push_str(&sx_expr(a));
            }
            o.push(')');
            o
        }
        syn::Expr::MethodCall(c) => {
            // generic arguments written on the method (turbofish) are kept in the method's text, without white space
            let targs: String = match &c.turbofish {
                None => String::new(),
                Some(t) => ts(t).chars().filter(|c| !c.is_whitespace()).collect::<String>().replace("::<", "<"),
            };
            let mut o = format!("(mcall {} {}", sx_expr(&c.receiver), q(&format!("{}{}", c.method, targs)));
            for a in &c.args {
                o.push(' ');
                o.push_str(&sx_expr(a));
            }
            o.push(')');
            o
        }
        syn::Expr::Block(b) if b.label.is_none() => sx_block(&b.block),
        syn::Expr::If(i) => {
            let cond = match &*i.cond {
                syn::Expr::Let(l) => format!("(letcond {} {})", sx_pat(&l.pat), sx_expr(&l.expr)),
                c => sx_expr(c),
            };
            match &i.else_branch {
                Some((_, els)) => format!("(if {} {} {})", cond, sx_block(&i.then_branch), sx_expr(els)),
                None => format!("(if {} {})", cond, sx_block(&i.then_branch)),
            }
        }
        syn::Expr::Try(t) => format!("(try {})", sx_expr(&t.expr)),
        // `lo..` / `lo..hi`
        syn::Expr::Range(r) if matches!(r.limits, syn::RangeLimits::HalfOpen(_)) && r.start.is_some() => match &r.end {
            Some(hi) => format!("(range {} {})", sx_expr(r.start.as_ref().unwrap()), sx_expr(hi)),
            None => format!("(range {})", sx_expr(r.start.as_ref().unwrap())),
        },
        syn::Expr::Closure(c) if c.capture.is_none() && c.asyncness.is_none() => {
            let mut o = String::from("(closure (cparams");
            for i in &c.inputs {
                o.push(' ');
                o.push_str(&sx_pat(i));
            }
            o.push_str(&format!(") {})", sx_expr(&c.body)));
            o
        }
        syn::Expr::Match(m) => {
            let mut o = format!("(match {}", sx_expr(&m.expr));
            for a in &m.arms {
                // an arm compiled conditionally carries its condition: (armc "<cfg tokens>" pat body)
                let cfgs: Vec<String> = a.attrs.iter().filter(|x| x.path().is_ident("cfg")).map(|x| ts(&x.meta)).collect();
                match (&a.guard, cfgs.is_empty()) {
                    (Some((_, g)), _) => o.push_str(&format!(" (arm {} (guard {}) {})", sx_pat(&a.pat), sx_expr(g), sx_expr(&a.body))),
                    (None, true) => o.push_str(&format!(" (arm {} {})", sx_pat(&a.pat), sx_expr(&a.body))),
                    (None, false) => o.push_str(&format!(" (armc {} {} {})", q(&cfgs.join(" && ")), sx_pat(&a.pat), sx_expr(&a.body))),
                }
            }
            o.push(')');
            o
        }
        syn::Expr::While(w) if w.label.is_none() => format!("(while {} {})", sx_expr(&w.cond), sx_block(&w.body)),
        // `for PAT in EXPR { .. }` over a collection (ranges are written with konst::for_range in const fns)
        syn::Expr::ForLoop(f) if f.label.is_none() => format!("(forin {} {} {})", sx_pat(&f.pat), sx_expr(&f.expr), sx_block(&f.body)),
        syn::Expr::Continue(c) if c.label.is_none() => "(continue)".into(),
        syn::Expr::Break(b) if b.label.is_none() && b.expr.is_none() => "(break)".into(),
        syn::Expr::Return(r) => match &r.expr {
            Some(e) => format!("(return {})", sx_expr(e)),
            None => "(return)".into(),
        },
        syn::Expr::Macro(m) => sx_macro(&m.mac),
        syn::Expr::Repeat(r) => format!("(repeat {} {})", sx_expr(&r.expr), sx_expr(&r.len)),
        syn::Expr::Array(a) => {
            let mut o = String::from("(array");
            for e in &a.elems {
                o.push(' ');
                o.push_str(&sx_expr(e));
            }
            o.push(')');
            o
        }
        syn::Expr::Tuple(t) if t.elems.is_empty() => "(unit)".into(),
        syn::Expr::Tuple(t) => {
            let mut o = String::from("(tuple");
            for e in &t.elems {
                o.push(' ');
                o.push_str(&sx_expr(e));
            }
            o.push(')');
            o
        }
        syn::Expr::Struct(s) if s.qself.is_none() => {
            let mut o = format!("(struct {}", sx_path(&s.path));
            for f in &s.fields {
                if let syn::Member::Named(n) = &f.member {
                    o.push_str(&format!(" (f {} {})", q(&n.to_string()), sx_expr(&f.expr)));
                } else {
                    o.push_str(&format!(" (unsupported {})", q("tuple field")));
                }
            }
            if let Some(r) = &s.rest {
                o.push_str(&format!(" (rest {})", sx_expr(r)));
            }
            o.push(')');
            o
        }
        other => format!("(unsupported {})", q(&format!("expr {}", ts(other)))),
    }
}

fn sx_fn(attrs: &[syn::Attribute], sig: &syn::Signature, block: &syn::Block) -> String {
    let mut o = format!("(fn {} (consts", q(&sig.ident.to_string()));
    for g in &sig.generics.params {
        if let syn::GenericParam::Const(c) = g {
            o.push(' ');
            o.push_str(&q(&c.ident.to_string()));
        }
    }
    o.push_str(") (params");
    for a in &sig.inputs {
        match a {
            syn::FnArg::Receiver(r) => {
                let kind = if r.reference.is_some() { if r.mutability.is_some() { "&mut self" } else { "&self" } } else { "self" };
                o.push_str(&format!(" (p {} {})", q("self"), q(kind)));
            }
            syn::FnArg::Typed(t) => {
                match &*t.pat {
                    syn::Pat::Ident(i) => o.push_str(&format!(" (p {} {})", q(&i.ident.to_string()), q(&ts(&t.ty)))),
                    other => o.push_str(&format!(" (pp {} {})", sx_pat(other), q(&ts(&t.ty)))),
                }
            }
        }
    }
    let cfgs: Vec<String> = attrs.iter().filter(|a| a.path().is_ident("cfg")).map(|a| ts(a)).collect();
    o.push_str(&format!(") (cfg {}) {})", q(&cfgs.join(" ")), sx_block(block)));
    o
}

fn handle_ast(o: &mut Out, path: &str) {
    let src = match std::fs::read_to_string(path.trim()) {
        Ok(s) => s,
        Err(e) => {
            o.put("status", &format!("unreadable {}", e));
            return;
        }
    };
    let file = match syn::parse_file(&src) {
        Ok(f) => f,
        Err(e) => {
            o.put("status", &format!("unparsable {}", e));
            return;
        }
    };
    for item in &file.items {
        match item {
            syn::Item::Fn(f) => o.put("fn", &sx_fn(&f.attrs, &f.sig, &f.block)),
            syn::Item::Impl(i) => {
                let ty: String = ts(&i.self_ty).chars().filter(|c| !c.is_whitespace()).collect();
                let key = match &i.trait_ {
                    None => ty,
                    Some((_, tr, _)) => format!("{} as {}", ty, ts(tr).chars().filter(|c| !c.is_whitespace()).collect::<String>()),
                };
                for it in &i.items {
                    if let syn::ImplItem::Fn(f) = it {
                        o.put("method", &format!("{} @@ {}", key, sx_fn(&f.attrs, &f.sig, &f.block)));
                    }
                }
            }
            syn::Item::Enum(e) => {
                let vs: Vec<String> = e.variants.iter().map(|v| format!("{}/{}", v.ident, v.fields.len())).collect();
                o.put("enum", &format!("{} @@ {}", e.ident, vs.join(" ")));
                for v in &e.variants {
                    let attrs: Vec<String> = v.attrs.iter().filter(|a| !a.path().is_ident("doc")).map(|a| ts(a)).collect();
                    o.put("enumv", &format!("{} @@ {} @@ {}", e.ident, v.ident, attrs.join(" ;; ")));
                }
            }
            syn::Item::Struct(s) => {
                let fs: Vec<String> = s.fields.iter().map(|f| format!("{}:{}", f.ident.as_ref().map(|i| i.to_string()).unwrap_or_default(), ts(&f.ty))).collect();
                o.put("struct", &format!("{} @@ {}", s.ident, fs.join(" ;; ")));
            }
            _ => {}
        }
    }
    o.put("status", "ast_done");
}

#[test]
fn verif_probe() {
    std::panic::set_hook(Box::new(|_| {}));
    let req_path = std::env::var("SYLVIA_VERIF_REQ").expect("SYLVIA_VERIF_REQ");
    let out_path = std::env::var("SYLVIA_VERIF_OUT").expect("SYLVIA_VERIF_OUT");
    let text = std::fs::read_to_string(&req_path).expect("read requests");
    let mut o = Out { buf: String::new(), id: String::new() };
    let mut cur: Option<(String, String)> = None;
    let mut section = 0u8;
    let (mut attr, mut item) = (String::new(), String::new());
    for line in text.lines() {
        if let Some(rest) = line.strip_prefix("#REQ ") {
            let mut it = rest.split_whitespace();
            let id = it.next().unwrap_or("").to_string();
            let kind = it.next().unwrap_or("").to_string();
            cur = Some((id, kind));
            attr.clear();
            item.clear();
            section = 0;
        } else if line == "#ATTR" {
            section = 1;
        } else if line == "#ITEM" {
            section = 2;
        } else if line == "#END" {
            if let Some((id, kind)) = cur.take() {
                o.id = id;
                if kind == "tables" {
                    handle_tables(&mut o, &item);
                } else if kind == "scan" {
                    handle_scan(&mut o, &item);
                } else if kind == "ast" {
                    handle_ast(&mut o, &item);
                } else {
                    handle_expand(&mut o, &kind, &attr, &item);
                }
                o.put("end", "");
            }
            section = 0;
        } else {
            match section {
                1 => {
                    attr.push_str(line);
                    attr.push('\n');
                }
                2 => {
                    item.push_str(line);
                    item.push('\n');
                }
                _ => {}
            }
        }
    }
    std::fs::write(&out_path, o.buf).expect("write output");
}
