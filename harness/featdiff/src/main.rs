// L3 under a chosen cargo feature set: IntoResponse::into_response on responses read from a file (one JSON per line).
// Built only when the feature theorem of C11 no longer holds, with the feature set that witnesses the failure.
use serde::{Deserialize, Serialize};
use serde_json::{json, Value};
use svfw::cw_std::{Empty, Response};
use svfw::into_response::IntoResponse;

#[derive(Serialize, Deserialize, Clone, Debug, PartialEq, schemars::JsonSchema)]
pub struct MyMsg {}
impl svfw::cw_std::CustomMsg for MyMsg {}

fn main() {
    let args: Vec<String> = std::env::args().collect();
    let input = std::fs::read_to_string(&args[1]).expect("input");
    let mut out = String::new();
    for line in input.lines() {
        let v: Value = match serde_json::from_str(line) {
            Ok(v) => v,
            Err(e) => {
                out.push_str(&json!({"bad_input": e.to_string()}).to_string());
                out.push('\n');
                continue;
            }
        };
        let obs = match serde_json::from_value::<Response<Empty>>(v.clone()) {
            Err(e) => json!({"bad_input": e.to_string()}),
            Ok(r) => {
                let res = std::panic::catch_unwind(|| IntoResponse::<MyMsg>::into_response(r));
                match res {
                    Ok(Ok(c)) => json!({"ok": serde_json::to_value(&c).unwrap_or(Value::Null), "input": v}),
                    Ok(Err(e)) => json!({"err": e.to_string().chars().take(200).collect::<String>()}),
                    Err(_) => json!({"panicked": true}),
                }
            }
        };
        out.push_str(&obs.to_string());
        out.push('\n');
    }
    std::fs::write(&args[2], out).expect("output");
}
